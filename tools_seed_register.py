#!/usr/bin/env python3
"""usage: tools_seed_register.py <name> <A|B> <seed id> <property> <needs> <detected_by (comma list, or 'none')> [note]"""
import sys, os, shutil, json, re
name, X, sid, prop, needs, det = sys.argv[1:7]
note = sys.argv[7] if len(sys.argv) > 7 else ""
src = f"/tmp/seed-{name}/{X}"
dst = f"/verif/seeded/{sid}"
os.makedirs(dst, exist_ok=True)
shutil.copy(f"{src}/patch.diff", f"{dst}/patch.diff")
shutil.copy(f"{src}/demo.rs", f"{dst}/demo.rs")
if os.path.exists(f"{src}/README.md"): shutil.copy(f"{src}/README.md", f"{dst}/AUTHOR_NOTES.md")
confirm = open(f"{src}/CONFIRM.txt").read() if os.path.exists(f"{src}/CONFIRM.txt") else ""
open(f"{dst}/CONFIRM.txt", "w").write(confirm)
suite_ok = bool(re.search(r"661 tests run: 661 passed", confirm))
parts = confirm.split("--- (")
demo_fail = len(parts) > 2 and "FAIL" in parts[2]
demo_pass = len(parts) > 3 and "PASS" in parts[3] and "FAIL" not in parts[3]
meta = dict(id=sid, property=prop, origin="independent sub-agent given only the property text and a scratch worktree",
    files=[l[6:] for l in open(f"{dst}/patch.diff") if l.startswith("+++ b/")],
    needs_to_manifest=needs,
    confirmed=dict(how="tools_seed_confirm.sh in the scratch worktree: nextest suite with the change (demo excluded), demo with the change, demo without it",
        suite_passes_with_change=suite_ok, demo_fails_with_change=demo_fail, demo_passes_without_change=demo_pass),
    evaluated=dict(how="tools_seed_eval.sh: git -C /repo apply patch.diff; bin/check <ids> quick; git -C /repo checkout -- .",
        detected_by=[d for d in det.split(",") if d and d != "none"]), note=note)
json.dump(meta, open(f"{dst}/meta.json", "w"), indent=1)
print(sid, "suite", suite_ok, "demo_fail", demo_fail, "demo_pass", demo_pass, "detected_by", meta["evaluated"]["detected_by"])
