#!/bin/bash
# usage: tools_seed_confirm.sh <name> <A|B>
# In the scratch worktree /tmp/wt-<name>: (1) suite with the change passes, (2) demo with the change fails,
# (3) demo without the change passes. Writes /tmp/seed-<name>/<X>/CONFIRM.txt
N="$1"; X="$2"; x=$(echo $X | tr A-Z a-z); CRATE="${3:-acts}"   # third argument: acts | store/sqlite
W=/tmp/wt-$N; S=/tmp/seed-$N/$X; OUT=$S/CONFIRM.txt
cd $W || exit 2
git checkout -q -- . ; rm -f acts/src/seed_demo_*.rs acts/tests/seed_demo_*.rs
MOD=seed_demo_$x
cp $S/demo.rs $CRATE/src/$MOD.rs
wire() { grep -q "mod $MOD;" $CRATE/src/lib.rs || printf '\n#[cfg(test)]\nmod %s;\n' $MOD >> $CRATE/src/lib.rs; }
{
echo "seed $N/$X  $(date -u)"
git apply $S/patch.diff || echo "PATCH DOES NOT APPLY"
wire
echo "--- (1) existing suite with the change (demo excluded)"
cargo nextest run --workspace --offline -E 'not test(seed_demo)' 2>&1 | grep -E "Summary|FAIL" | head -5
echo "--- (2) demo with the change (expected: FAIL)"
cargo nextest run --workspace --offline -E 'test(seed_demo)' 2>&1 | grep -E "Summary|PASS|FAIL" | head -5
git checkout -q -- . ; wire
echo "--- (3) demo without the change (expected: PASS)"
cargo nextest run --workspace --offline -E 'test(seed_demo)' 2>&1 | grep -E "Summary|PASS|FAIL" | head -5
git checkout -q -- . ; rm -f $CRATE/src/$MOD.rs
} > $OUT 2>&1
cat $OUT
