# one entry per claimed property; read by tools_manifest.py
NOT_YET = {}
check("C01", "model_checking",
  "Every order of queued-task executions, launches and client answers of every workflow in a bounded branch grammar (2-3 branches x if/else/needs x body shapes x valuations) is executed on the real engine; the quiescence oracle (terminal event, or an answerable interrupt) is applied at every quiescent state of every execution. Exhaustive within the grammar and the atomic-activity granularity, which is what the property's quantifier over programs/inputs/schedules needs and a test cannot give.",
  "Activities are atomic (preemption inside a scheduler iteration or a client call is explored by the T-mode checks); log-only message dispatch is run eagerly (commutes); bounds: <= 3 branches, depth 3, horizon 400 activities.",
  "stateless model checking of the implementation: replay DFS over all activity orders under an owned scheduler/clock/id generator",
  "DESIGN.md section 4 C01")
check("C02", "model_checking",
  "Every sequence of up to L client actions (all kinds, aimed at every interrupt act that exists, open or already terminal) on four base workflows is executed on the real engine at every quiescent point and, as a deviation, racing in-flight work; the sequence of states reported for every task is checked against the forward-only lifecycle with the single catch exception. All histories up to the bound, not samples.",
  "Atomic activities; history length <= 2/3, deviation bound 1; the reported sequence is what the engine hands to its runtime at every task event (hook) plus what the API shows at quiescent points.",
  "stateless model checking of the implementation: replay DFS over client histories x activity orders, trace monitor",
  "DESIGN.md section 4 C02")
check("C03", "model_checking",
  "All histories of up to L client actions on workflows with two concurrently open regions, both keep_processes settings, every activity order within the deviation bound; at every task event a structural dump decides 'completed only over terminal subtrees', at every quiescent point process state == root state, per process exactly one start and one terminal event, nothing open or accepted after a non-error terminal event.",
  "Atomic activities; <= 3 actions; two known findings (back / skip inside concurrently open regions) are listed in KNOWN_FINDINGS.txt with the histories they cover.",
  "stateless model checking of the implementation: replay DFS over client histories x activity orders, invariant monitors on trace and dumps",
  "DESIGN.md section 4 C03")
check("C05", "model_checking",
  "Admission matrix by exhaustive history exploration: from every state reached by a prefix history, every action kind x every target class (open act, terminal act, step, branch, root, unknown tid, unknown pid) x option maps (none / all declared outputs / one missing / extra and private keys); every accepted call must satisfy the admission rule, every rejected terminal-style call must return Err and leave the full process dump and the message stream unchanged. The at-most-once clause for concurrent identical actions is explored with real threads under a preemption bound (T-mode).",
  "A-mode for the matrix (atomic calls); T-mode: scheduling points at the engine's own task-state / task-set / cache accesses, preemption bound k <= 2; bounds 2-3 client threads.",
  "stateless model checking of the implementation: replay DFS over histories (matrix) and CHESS-style preemption-bounded exploration of real threads (races)",
  "DESIGN.md section 4 C05")
check("C08", "model_checking",
  "On every execution of the C02 history scenarios the generated message stream is checked per task: at most one created and one terminal message in that order, existence per node kind, every field equal to the task at generation time, unique ids, parent announced before child, no report of an error the task caught itself.",
  "Generation order is observed at the emitter (hook), delivery to log-only handlers commutes; same bounds as C02.",
  "stateless model checking of the implementation: replay DFS over client histories x activity orders, message-stream monitor",
  "DESIGN.md section 4 C08")
check("C10", "model_checking",
  "Reference-state graph with edge conformance: for each of the six collections and both back ends every edge (create, update, delete, also of absent ids) from every one of the 3^n reference states is executed on the real DbCollection and read back completely (find, exists, full scan, field by field), each state is built by two different paths, every operation sequence up to a depth is enumerated from the empty table, and at every state a battery of ~10^4 queries (AND/OR shapes with hit and miss sub-conditions, typed ordering, windows, totals) is compared with a reference evaluation. Because the read-back covers the whole state of a collection, induction over edges extends the CRUD verdict to every operation sequence over the alphabet.",
  "Records: 3 (quick) / 4 (thorough) with all fields distinct and non-default; query keys are non-optional columns; duplicate-id creation and string lt/gt are not judged; SQLite on a scratch file per item.",
  "explicit-state exploration of a reference model (map id -> version) with conformance of every edge and of a query battery against the implementation",
  "DESIGN.md section 4 C10")
check("C09", "model_checking",
  "Reference-state graph with edge conformance: breadth-first over every reference state (per stored message: status, retry count, stale flag; which acts were answered) reachable within the depth; every edge {ack, complete the act, advance the clock by 1 ms or by more than the interval, tick, redo, clear(None|pid)} is executed on a fresh real engine by replaying its path under a virtual clock; the rows of the message collection and the deliveries to the acknowledging channel (id, retry_times, content, stored before the handler ran) must equal the prediction. max_message_retry_times in {1,2,3}; in-memory and SQLite store.",
  "Two processes of a one-interrupt workflow, one acknowledging channel (type=act); depth 5 (memory) / 4 (SQLite) in quick, 7 / 6 in thorough; engine work is drained FIFO after every operation; the tick is the operation the timer issues.",
  "explicit-state exploration of a reference model of the message table with conformance of every edge against the implementation (virtual clock, explicit ticks)",
  "DESIGN.md section 4 C09")
check("C19", "model_checking",
  "Reference-state graph with edge conformance over (elapsed time, rules fired, task open): for a timed interrupt act and a timed step, every rule set from {1s,2s,1m} in both declaration orders, breadth-first over every state reachable within the depth with {advance 300|800|1100|61000 ms, tick, answer}; every edge replayed on a fresh real engine under a virtual clock; instances of each rule's step created by the edge must equal the prediction: first tick with elapsed >= limit while open, once, never after the task ended, never without a tick; the timed task stays open.",
  "Virtual clock through the time hook; ticks are explicit; elapsed times within 2 ms of a limit are not judged; depth 6 / 8.",
  "explicit-state exploration of a reference model (elapsed, fired, open) with conformance of every edge against the implementation under a virtual clock",
  "DESIGN.md section 4 C19")
check("C18", "model_checking",
  "Matrix: all 7^5 = 16807 channels built from seven glob patterns per field are registered together on a real engine and receive the messages of real runs; each of the ~2.4*10^5 (channel, message) pairs is compared with a hand-written truth table per pattern (no glob engine in the oracle), so the five-fold conjunction with the tag disjunction is decided for the whole pattern product. Histories: every sequence up to the depth over open / re-register with another pattern / close / unsub / emit-completing / emit-failing for two channels that register all four handler kinds; per-channel deliveries are compared with the pattern registered at dispatch.",
  "Dispatch right after generation; patterns and corpus fixed in checks/c18.rs; history depth 4 / 5.",
  "bounded-exhaustive enumeration of the pattern product on the implementation plus explicit-state enumeration of channel operation histories with conformance of every step",
  "DESIGN.md section 4 C18")
check("C11", "model_checking",
  "On every execution of nine workflows (sequential, branches, catches, parallel generators, parked branches, env declared in the model, env written by a script, a variable propagating to the root) x every sequence of <= 2 client actions x both keep_processes settings x both stores, at every quiescent point the live process (full dump through the hook) is compared with the proc row and the task rows read through the registered collections: tid set, per task state, prev, data, err, start/end time, per process state, err, env.",
  "Atomic activities, deviation bound 0-1; the evaluated-parameter cache `$params` of a task is not judged (derived on demand).",
  "stateless model checking of the implementation: replay DFS over client histories x activity orders with a store-image invariant at every quiescent state",
  "DESIGN.md section 4 C11")
check("C17", "model_checking",
  "Two interleaved processes ending by every pair of {complete, abort, skip, error} in both orders, each followed by a further action on the finished process, x both keep_processes settings x both stores, with message rows present; every order of queued engine work within one deviation; after every client operation at quiescence the whole store (all proc, task, message rows) is compared with the snapshot before it: nothing of an ended process remains by default, everything remains and is terminal with keep_processes, rows of the other process and message rows are untouched, further actions are refused. Plus every deploy/rm sequence up to a depth over models with 2, 1, 0 start events with the event and model tables compared after every step.",
  "Client operations at quiescent points; bounds: 2 processes, 1 deviation, model sequences of depth 4 / 5.",
  "stateless model checking of the implementation (replay DFS) with whole-store before/after invariants, plus explicit enumeration of model operation sequences with conformance of every step",
  "DESIGN.md section 4 C17")
check("C12", "model_checking",
  "Differential exploration of crash points: for 13 workflows x client scripts x both stores, every quiescent point of the uninterrupted run (every pair in thorough) is used as eviction point (in-memory store) or engine restart point (new engine on the same SQLite file); the interrupted run repeats the same choices and client operations and its further messages (ids, times erased), client results, terminal event and final task outcomes must equal those of the uninterrupted run.",
  "One (FIFO) schedule per run because the oracle is differential; the uninterrupted run is executed twice and must be identical; <= 12 client operations.",
  "exhaustive enumeration of crash/eviction points over executions of the implementation with a differential (uninterrupted vs interrupted) oracle",
  "DESIGN.md section 4 C12")
check("C13", "model_checking",
  "Every pair (a triple in thorough) of processes from a set of four workflow kinds, one of them ended by complete / abort / error, is run on one engine under every interleaving of the activities of the processes within d deviations from 'stay with the current process, oldest first', with one eviction of any cached process at any boundary and with a configured cache capacity of 1; the per-pid projection (message multiset, task outcomes, terminal outputs, ids erased) must lie in the outcome set of that process explored alone and never evicted; no message may carry a value of the other process; a second start with the same pid is tried at five positions relative to launch and completion.",
  "Atomic activities; runtime thread count subsumed (any number of workers yields a subset of these interleavings); bounds 2-3 processes, d <= 2/3, 1 eviction; workflows whose reload is a recorded C12 finding are not in the alphabet.",
  "stateless model checking of the implementation: deviation-bounded replay DFS over multi-process interleavings with a per-process projection compared against the solo outcome set (differential)",
  "DESIGN.md section 4 C13")
check("C14", "exploration",
  "Bounded-exhaustive input enumeration on the real engine: 17 boundary atoms, every array and object of width <= 2 over them and width-1 containers of those (about 1.9*10^3 values) are each sent through six routes of a real process (script global, $get, comparison inside a script, return from a code act, $set, step condition) and read back from the terminal event; every template string of <= 3 segments over {literal, {{a}}, {{ b }}, {{a+1}}, literal} for two typings of a and b is substituted by the engine into message parameters and compared with a reference substitution. The property quantifies over inputs only; the space is finite by construction and covered completely.",
  "Sequential, one schedule (the property has no schedule quantifier); numbers compared by value.",
  "bounded-exhaustive enumeration of inputs executed on the implementation, compared with a reference (identity / reference substitution)",
  "DESIGN.md section 4 C14")
check("C20", "exploration",
  "Bounded-exhaustive enumeration of models on the real parser, serialisers, deploy path and tree builder: every structural shape up to the node budget, a skeleton with every node kind and each of ~100 optional-field toggles singly and in pairs (unicode text, vars of every JSON type, conditions, jumps, needs/else/run, setup and hook acts, nested catches and timeouts, events, ver), generated ids; per model YAML and JSON round trips and the stored text are compared field by field with the GIVEN JSON (not with the engine's own serialisation), four deploys check the version count and the event rows, the tree text is compared with an independently computed (level, kind, id) list; duplicate ids at every pair of nodes must be rejected, an unknown model cannot be started.",
  "No engine run (the property quantifies over programs only); catch and timeout bodies are not rendered in the tree text.",
  "bounded-exhaustive enumeration of models executed on the implementation, compared with the given model and an independently computed tree",
  "DESIGN.md section 4 C20")
check("C15", "model_checking",
  "A parent whose calling act runs beside an open interrupt in a sibling branch, a child and (3-level variant) a grandchild, ended by complete with outputs, error with code and message, abort, skip, or a missing target model: every order of queued tasks, launches, the spawned return activities and the client answers is executed on the real engine (exhaustive for two levels, deviation-bounded for three); per call the oracle checks: open until the callee's terminal event, closed exactly once with the mapped state, outputs or error code handed back, callee started with exactly the call options plus the link keys, caller's terminal event after the callee's, a missing model fails the act instead of hanging it.",
  "Atomic activities; the 'skipped' mapping is vacuous (no reachable way for a process to end skipped was found); levels <= 3.",
  "stateless model checking of the implementation: replay DFS over all orders of engine activities (incl. the return activity) and client answers",
  "DESIGN.md section 4 C15")
check("C16", "model_checking",
  "Parallel and sequence acts over lists of length 0..3 with four body shapes, parallel and sequential blocks, a sequence of parallels, hooks with every `on` on workflow / step / act hosts (FIFO and LIFO default schedules), push into an open step at any moment: every order of queued tasks and client answers within the bound is executed; the oracle counts generated instances and hook firings against the lifecycle events of the same trace, checks $index/$value per group, at-once opening of parallel groups, group order of sequences, body order inside groups, and that the generator ends after everything it generated and before its successor.",
  "Atomic activities; exhaustive where <= 2 interrupts are open, deviation-bounded (3 / 6) otherwise and 2 / 3 for the hook scenarios.",
  "stateless model checking of the implementation: replay DFS over completion orders and activity orders with counting oracles on the trace",
  "DESIGN.md section 4 C16")
check("C06", "model_checking",
  "Catch lists (every sequence of <= 2 catches over {on e1, on e2, catch-all} x body {none, message step, interrupt step}) are placed on the failing act, on the step around it and on the outer step of a two-branch spine; the error comes from a client error action with code e1 / e2 / e3 / e10 and a message, from a throwing script or from an unknown package, while a second interrupt is open in the sibling branch; every order of queued tasks and client answers is executed (exhaustive per model); a reference prediction (innermost list with a match, first match in the list) decides which catch steps run (exactly once, no others), that the catcher completes and its successor runs while the tasks below stay in error, and for no match that the whole spine is marked and exactly one error event carries the original code and message.",
  "Atomic activities; 600-1500 generated models per tier.",
  "stateless model checking of the implementation over a generated model family, each model judged against a reference interpreter of the catch semantics",
  "DESIGN.md section 4 C06")
check("C04", "model_checking",
  "Every workflow of a bounded grammar (1-3 steps; conditional steps; 1-2 acts irq/msg/set with conditions; 2-3 branches if/else/needs with empty, leaf or act bodies in every declaration order; steps with branches and acts together; a loop family with a guarded backward `next` jump) x every valuation of the two inputs x every order of queued tasks and client answers is executed on the real engine and compared with a reference interpreter written from the property text: instances per node in creation order, final state of each, and the order edges (step after predecessor, acts one after another, body after branch, needs after the needed sibling, container after its children, re-entered step after the jumping step). A threaded variant completes the interrupts of parallel branches from two or three client threads with preemption at every engine scheduling point (bound 1 / 2).",
  "Atomic activities in the program sweep (exhaustive when <= 2 regions are open, deviation bound 2 / 4 with three); node budget <= 5 (quick) / <= 6 (thorough); don't-care where the text decides nothing (needs on a skipped sibling, containers a jump leaves); worker-thread count is subsumed by schedule enumeration: with every hook-visible scheduling decision owned by the harness, any thread pool can only produce one of the enumerated orders (A-mode) or preemption patterns (T-mode, bounded).",
  "stateless model checking of the implementation over a generated program family, each execution judged against a reference interpreter; CHESS-style preemption-bounded exploration of real client threads",
  "DESIGN.md section 4 C04")
