# one entry per claimed property; read by tools_manifest.py
NOT_YET = {}
check("C01", "model_checking",
  "Every order of queued-task executions, launches and client answers of every workflow in a bounded branch grammar (2-3 branches x if/else/needs x body shapes x valuations) is executed on the real engine; the quiescence oracle (terminal event, or an answerable interrupt) is applied at every quiescent state of every execution. Exhaustive within the grammar and the atomic-activity granularity, which is what the property's quantifier over programs/inputs/schedules needs and a test cannot give.",
  "Activities are atomic (preemption inside a scheduler iteration or a client call is explored by the T-mode checks); log-only message dispatch is run eagerly (commutes); bounds: <= 3 branches, depth 3, horizon 400 activities.",
  "stateless model checking of the implementation: replay DFS over all activity orders under an owned scheduler/clock/id generator",
  "DESIGN.md section 4 C01")
