#!/usr/bin/env python3
"""Generates MANIFEST.json from the table below (kept as code so that it is always valid)."""
import json
BASELINE = "cd /repo/$(cat /w/out/cargo_root.txt) && cargo nextest run --workspace --no-fail-fast --tool-config-file pb:/w/lib/nextest.toml --profile pb --test-threads 8 --offline || cargo test --workspace --no-fail-fast --offline"
import os, subprocess
hooks_commits = subprocess.run(["git","-C","/repo","log","--format=%h %s"],capture_output=True,text=True).stdout.splitlines()
hook_commits = [l.split()[0] for l in hooks_commits if "verification hooks" in l or l.split(' ',1)[1].startswith("verif:")]

CHECKS = {}
def check(pid, category, text, note, technique, design_ref, thorough=True):
    CHECKS[pid] = dict(property_id=pid, quick_cmd=f"bin/check {pid} quick",
        evidence_file=f"/verif/evidence/{pid}.json", replay_cmd_template="bin/check replay {path}", engine="mc",
        level_claimed=dict(category=category, text=text, design_ref=design_ref), level_note=note, technique=technique)
    if thorough: CHECKS[pid]["thorough_cmd"] = f"bin/check {pid} thorough"

exec(open(os.path.join(os.path.dirname(__file__), "manifest_checks.py")).read())

ALL = ["C%02d" % i for i in range(1, 21)]
na = [dict(property_id=p, reason=NOT_YET.get(p, "check not built yet in this round (planned in DESIGN.md section 4); not claimed until it exists")) for p in ALL if p not in CHECKS]
m = dict(version=1,
    setup_cmd="bin/check build",
    hooks=dict(guard='cargo feature "verif" of crate acts (all added lines are under #[cfg(feature = "verif")]; the workspace never enables it)',
        enable='the harness crate /verif/mc depends on acts = { path = "/repo/acts", features = ["verif"] } and is rebuilt from /repo\'s working tree by every bin/check call',
        baseline_off_cmd=BASELINE, source_commits=hook_commits, add_only=True),
    engines=[dict(name="mc", path="/verif/mc", serves_properties=sorted(CHECKS.keys()),
        kind_free_text="stateless model checker of the real engine: closed world (owned spawns, clock, ids), replay DFS over activity orders (A-mode), preemption-bounded thread exploration (T-mode), reference-state BFS with edge conformance (R-mode), bounded-exhaustive generators")],
    checks=[CHECKS[k] for k in sorted(CHECKS)],
    notes="See DESIGN.md. Exit codes of bin/check: 0 held, 1 VIOLATION, 2 machinery error (never a verdict). KNOWN_FINDINGS.txt lists recorded defects and fix commits.",
    not_applicable=na)
json.dump(m, open(os.path.join(os.path.dirname(__file__), "MANIFEST.json"), "w"), indent=1)
print("checks:", sorted(CHECKS), "not claimed:", [x["property_id"] for x in na])
