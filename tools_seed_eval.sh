#!/bin/bash
# usage: tools_seed_eval.sh <patch.diff> <check id>...   applies the patch to /repo, runs the quick checks, undoes it
P="$1"; shift
cd /repo && git status --short | grep -v '^??' | grep . && { echo "repo not clean"; exit 2; }
trap "git -C /repo checkout -- ." EXIT
git -C /repo apply "$P" || { echo "patch does not apply"; exit 2; }
for c in "$@"; do
  cd /verif && timeout ${EVAL_TIMEOUT:-900} bin/check $c ${TIER:-quick} > /tmp/seedeval-$c.out 2>&1
  echo "== $c exit $? :: $(grep -c '^VIOLATION' /tmp/seedeval-$c.out) violation lines"
  grep -E "^VIOLATION|signature=|MACHINERY" /tmp/seedeval-$c.out | cut -c1-260 | head -6
done
git -C /repo checkout -- . ; git -C /repo status --short | grep -v '^??' | head -3
# the harness binary was built from the patched tree: rebuild it from the restored one
cd /verif && bin/check build >/dev/null 2>&1
