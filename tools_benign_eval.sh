#!/bin/bash
# usage: tools_benign_eval.sh <dir with X/patch.diff ...>   applies each behaviour-preserving patch to /repo,
# runs the quick tier of every check, restores /repo; a non-zero exit of any check is a false alarm
D="$1"
cd /repo && git status --short | grep -v '^??' | grep . && { echo "repo not clean"; exit 2; }
trap "git -C /repo checkout -- ." EXIT
for P in "$D"/*/patch.diff; do
  X=$(basename $(dirname "$P"))
  git -C /repo apply "$P" || { echo "$X: patch does not apply"; continue; }
  line="$X:"
  for c in C01 C02 C03 C04 C05 C06 C07 C08 C09 C10 C11 C12 C13 C14 C15 C16 C17 C18 C19 C20; do
    cd /verif && timeout 600 bin/check $c quick > /tmp/benign-$X-$c.out 2>&1; rc=$?
    line="$line $c=$rc"
  done
  echo "$line"
  git -C /repo checkout -- .
done
cd /verif && bin/check build >/dev/null 2>&1
