#!/bin/bash
# usage: tools_seed_setup.sh <name>   -> creates /tmp/wt-<name> (git worktree of /repo HEAD) with a warm target dir
set -e
N="$1"
git -C /repo worktree add --detach /tmp/wt-$N HEAD >/dev/null 2>&1
cp -r /repo/target /tmp/wt-$N/target
mkdir -p /tmp/seed-$N
echo "/tmp/wt-$N ready"
