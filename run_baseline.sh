#!/bin/bash
# runs the repository's test suite (hooks off) and prints the summary line
cd /repo && cargo nextest run --workspace --no-fail-fast --tool-config-file pb:/w/lib/nextest.toml --profile pb --test-threads 8 --offline 2>&1 | grep -E "Summary|FAIL|failed|error\[" | head -20
