use mc::report::{Tier, run_check, run_worker};

fn main() {
    let args: Vec<String> = std::env::args().collect();
    let cmd = args.get(1).map(|s| s.as_str()).unwrap_or("");
    match cmd {
        "check" => {
            let id = args.get(2).expect("check <ID> [quick|thorough]");
            let tier = Tier::parse(
                &args
                    .get(3)
                    .cloned()
                    .or_else(|| std::env::var("VERIF_TIER").ok())
                    .unwrap_or_else(|| "quick".into()),
            );
            let check = mc::checks::by_id(id).unwrap_or_else(|| {
                eprintln!("unknown check {id}");
                std::process::exit(2)
            });
            std::process::exit(run_check(check.as_ref(), tier));
        }
        "worker" => {
            let id = &args[2];
            let tier = Tier::parse(&args[3]);
            let check = mc::checks::by_id(id).expect("unknown check");
            run_worker(check.as_ref(), tier);
        }
        "replay" => {
            let path = args.get(2).expect("replay <file>");
            std::process::exit(mc::checks::replay(path));
        }
        "try" => {
            // debugging aid: run one model under the default schedule, complete every interrupt, print the trace
            let yml = std::fs::read_to_string(&args[2]).expect("model file");
            let vars: serde_json::Value = serde_json::from_str(args.get(3).map(|s| s.as_str()).unwrap_or("{}")).expect("vars json");
            mc::world::install_panic_hook_quiet();
            let mut sess = mc::world::Session::new(&mc::world::Cfg::keep());
            // several models separated by a line `---`: the first one is started
            let docs: Vec<&str> = yml.split("\n---\n").collect();
            let wf = sess.deploy(docs[0]);
            for d in &docs[1..] {
                sess.deploy(d);
            }
            let mut v = vars.clone();
            v["pid"] = "p1".into();
            let r = sess.start(&wf.id, &mc::checks::common::vars_of(&v));
            println!("start => {r:?}");
            let mut done: std::collections::BTreeSet<String> = Default::default();
            if let Ok(f) = std::env::var("TRY_FIRST") {
                // "<action>:<key of the act>" after the first run to quiescence
                let (k, key) = f.split_once(':').expect("TRY_FIRST=action:key");
                sess.drain();
                let tid = sess.dump("p1").and_then(|d| d.tasks.iter().find(|t| t.key == key).map(|t| t.tid.clone())).expect("no such key");
                let r = sess.act(k, "p1", &tid, &acts::Vars::new());
                println!("first {k} {key} ({tid}) => {r:?}");
            }
            for _ in 0..400 {
                let acts = sess.enabled();
                let pick = if std::env::var("TRY_LAST").is_ok() { acts.last() } else { acts.first() };
                if let Some(a) = pick {
                    let t0 = std::time::Instant::now();
                    sess.run(a.seq);
                    if std::env::var("TRY_LAST").is_ok() {
                        eprintln!("ran {} in {:?}, enabled now {}", a.label(), t0.elapsed(), sess.enabled().len());
                    }
                    continue;
                }
                let open: Vec<acts::Message> = sess.open_irqs(None).into_iter().filter(|m| !done.contains(&m.tid)).collect();
                let Some(m) = open.first() else { break };
                done.insert(m.tid.clone());
                let opts: serde_json::Value = serde_json::from_str(&std::env::var("TRY_OPTS").unwrap_or("{}".into())).expect("TRY_OPTS json");
                let r = sess.act(args.get(4).map(|s| s.as_str()).unwrap_or("complete"), &m.pid, &m.tid, &mc::checks::common::vars_of(&opts));
                println!("client {} {} => {r:?}", m.tid, m.key);
            }
            if std::env::var("TRY_DATA").is_ok() {
                for t in sess.w.trace_snapshot() {
                    if let mc::world::Tr::Emit { channel, msg } = t {
                        println!("emit {channel} {} {} {:?} key={} inputs={} outputs={}", msg.tid, msg.r#type, msg.state, msg.key, msg.inputs, msg.outputs);
                    }
                }
            } else {
                for l in mc::amode::trace_log(&sess.w.trace_snapshot()) {
                    println!("{l}");
                }
            }
            if let Some(d) = sess.dump("p1") {
                for t in &d.tasks {
                    println!("{t:?}");
                }
            }
        }
        "c04prog" => {
            let k: usize = args[2].parse().unwrap();
            let tier = Tier::parse(args.get(3).map(|s| s.as_str()).unwrap_or("quick"));
            let p = &mc::checks::c04::selected_pub(tier)[k];
            println!("{}\n{}", p.name(), p.yml());
        }
        "leak" => {
            // debugging aid: RSS growth per engine instance
            mc::world::install_panic_hook_quiet();
            let n: usize = args.get(2).and_then(|s| s.parse().ok()).unwrap_or(2000);
            let rss = || std::fs::read_to_string("/proc/self/statm").ok().and_then(|s| s.split_whitespace().nth(1).and_then(|x| x.parse::<u64>().ok())).unwrap_or(0) * 4 / 1024;
            for i in 0..n {
                let mode = std::env::var("LEAK_MODE").unwrap_or_default();
                let cfg = if mode.contains("sqlite") { let mut c = mc::world::Cfg::keep(); c.sqlite = Some("@scratch".into()); c } else { mc::world::Cfg::keep() };
                let mut sess = mc::world::Session::new(&cfg);
                if !mode.contains("new-only") {
                    sess.deploy(mc::wgen::W2);
                    if !mode.contains("deploy-only") {
                        let _ = sess.start("w2", &mc::checks::common::vars_of(&serde_json::json!({"pid": "p1"})));
                        sess.drain();
                    }
                }
                if i % 500 == 0 {
                    println!("fds {}", std::fs::read_dir("/proc/self/fd").map(|d| d.count()).unwrap_or(0));
                    println!("{i}: rss {} MB", rss());
                }
            }
            println!("end: rss {} MB", rss());
        }
        "c14val" => {
            // debugging aid: one value through the six routes of C14
            mc::world::install_panic_hook_quiet();
            let v: serde_json::Value = serde_json::from_str(&args[2]).expect("json value");
            for (r, o) in mc::checks::c14::run_value(&v) {
                println!("{r}: {}", o.map(|x| x.to_string()).unwrap_or("<none>".into()));
            }
        }
        "items" => {
            let id = &args[2];
            let tier = Tier::parse(args.get(3).map(|s| s.as_str()).unwrap_or("quick"));
            let check = mc::checks::by_id(id).expect("unknown check");
            for (i, it) in check.items(tier).iter().enumerate() {
                println!("{i}\t{}", it["id"]);
            }
        }
        _ => {
            eprintln!("usage: mc check <ID> [quick|thorough] | mc replay <file> | mc items <ID> [tier]");
            std::process::exit(2);
        }
    }
}
