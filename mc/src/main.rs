use mc::report::{Tier, run_check, run_worker};

fn main() {
    let args: Vec<String> = std::env::args().collect();
    let cmd = args.get(1).map(|s| s.as_str()).unwrap_or("");
    match cmd {
        "check" => {
            let id = args.get(2).expect("check <ID> [quick|thorough]");
            let tier = Tier::parse(
                &args
                    .get(3)
                    .cloned()
                    .or_else(|| std::env::var("VERIF_TIER").ok())
                    .unwrap_or_else(|| "quick".into()),
            );
            let check = mc::checks::by_id(id).unwrap_or_else(|| {
                eprintln!("unknown check {id}");
                std::process::exit(2)
            });
            std::process::exit(run_check(check.as_ref(), tier));
        }
        "worker" => {
            let id = &args[2];
            let tier = Tier::parse(&args[3]);
            let check = mc::checks::by_id(id).expect("unknown check");
            run_worker(check.as_ref(), tier);
        }
        "replay" => {
            let path = args.get(2).expect("replay <file>");
            std::process::exit(mc::checks::replay(path));
        }
        "items" => {
            let id = &args[2];
            let tier = Tier::parse(args.get(3).map(|s| s.as_str()).unwrap_or("quick"));
            let check = mc::checks::by_id(id).expect("unknown check");
            for (i, it) in check.items(tier).iter().enumerate() {
                println!("{i}\t{}", it["id"]);
            }
        }
        _ => {
            eprintln!("usage: mc check <ID> [quick|thorough] | mc replay <file> | mc items <ID> [tier]");
            std::process::exit(2);
        }
    }
}
