pub mod amode;
pub mod checks;
pub mod explore;
pub mod wgen;
pub mod report;
pub mod tmode;
pub mod world;
