//! Workflow families (bounded-exhaustive generators), simplest first.

#[derive(Clone, Copy, Debug, PartialEq, Eq)]
pub enum BK {
    IfA,
    IfB,
    Else,
    Needs(usize),
}
#[derive(Clone, Copy, Debug, PartialEq, Eq)]
pub enum Body {
    Empty,
    Step,
    Irq,
}

#[derive(Clone, Debug)]
pub struct BranchProg {
    pub brs: Vec<(BK, Body)>,
}

impl BranchProg {
    pub fn name(&self) -> String {
        self.brs
            .iter()
            .map(|(k, b)| {
                let k = match k {
                    BK::IfA => "ifA".to_string(),
                    BK::IfB => "ifB".to_string(),
                    BK::Else => "else".to_string(),
                    BK::Needs(j) => format!("needs{j}"),
                };
                let b = match b {
                    Body::Empty => "empty",
                    Body::Step => "step",
                    Body::Irq => "irq",
                };
                format!("{k}-{b}")
            })
            .collect::<Vec<_>>()
            .join("+")
    }
    pub fn uses_a(&self) -> bool {
        self.brs.iter().any(|(k, _)| *k == BK::IfA)
    }
    pub fn uses_b(&self) -> bool {
        self.brs.iter().any(|(k, _)| *k == BK::IfB)
    }
    /// `s0; s1 {branches}; s2`
    pub fn yml(&self, mid: &str) -> String {
        let mut s = format!("id: {mid}\nsteps:\n  - id: s0\n  - id: s1\n    branches:\n");
        for (i, (k, b)) in self.brs.iter().enumerate() {
            s += &format!("      - id: b{i}\n");
            match k {
                BK::IfA => s += "        if: a > 0\n",
                BK::IfB => s += "        if: b > 0\n",
                BK::Else => s += "        else: true\n",
                BK::Needs(j) => s += &format!("        needs: [b{j}]\n"),
            }
            match b {
                Body::Empty => {}
                Body::Step => s += &format!("        steps:\n          - id: s1{i}\n"),
                Body::Irq => {
                    s += &format!(
                        "        steps:\n          - id: s1{i}\n            acts:\n              - uses: acts.core.irq\n                key: k{i}\n"
                    )
                }
            }
        }
        s += "  - id: s2\n";
        s
    }
    pub fn irq_bodies(&self) -> usize {
        self.brs.iter().filter(|(_, b)| *b == Body::Irq).count()
    }
    pub fn nonempty_bodies(&self) -> usize {
        self.brs.iter().filter(|(_, b)| *b != Body::Empty).count()
    }
}

/// every program with `n` branches: kind in {if a, if b, else, needs:[an if sibling]} x body in
/// {empty, step, step with irq}, every declaration order; at most one else; no else beside needs
pub fn branch_programs(n: usize) -> Vec<BranchProg> {
    let bodies = [Body::Empty, Body::Step, Body::Irq];
    let mut kinds_per = vec![];
    for i in 0..n {
        let mut ks = vec![BK::IfA, BK::IfB, BK::Else];
        for j in 0..n {
            if j != i {
                ks.push(BK::Needs(j));
            }
        }
        kinds_per.push(ks);
    }
    let mut progs: Vec<Vec<(BK, Body)>> = vec![vec![]];
    for ks in kinds_per.iter() {
        let mut next = vec![];
        for p in &progs {
            for k in ks {
                for b in &bodies {
                    let mut q = p.clone();
                    q.push((*k, *b));
                    next.push(q);
                }
            }
        }
        progs = next;
    }
    progs.retain(|p| p.iter().filter(|(k, _)| *k == BK::Else).count() <= 1);
    progs.retain(|p| {
        p.iter().all(|(k, _)| match k {
            BK::Needs(j) => matches!(p[*j].0, BK::IfA | BK::IfB),
            _ => true,
        }) && !(p.iter().any(|(k, _)| *k == BK::Else) && p.iter().any(|(k, _)| matches!(k, BK::Needs(_))))
    });
    // simplest first: fewer non-empty bodies, fewer irqs
    let mut v: Vec<BranchProg> = progs.into_iter().map(|brs| BranchProg { brs }).collect();
    v.sort_by_key(|p| (p.irq_bodies(), p.nonempty_bodies()));
    v
}

/// valuations of (a, b) over the variables the program uses
pub fn valuations(p: &BranchProg) -> Vec<(i64, i64)> {
    let mut v = vec![];
    for a in 0..=(p.uses_a() as i64) {
        for b in 0..=(p.uses_b() as i64) {
            v.push((a, b));
        }
    }
    v
}

/// the base workflows of DESIGN appendix B.1
pub const W1: &str = "id: w1\nsteps:\n  - id: s1\n    acts:\n      - uses: acts.core.irq\n        key: a1\n      - uses: acts.core.irq\n        key: a2\n  - id: s2\n    acts:\n      - uses: acts.core.irq\n        key: a3\n";
pub const W2: &str = "id: w2\nsteps:\n  - id: s1\n    branches:\n      - id: b1\n        if: \"true\"\n        steps:\n          - id: s11\n            acts:\n              - uses: acts.core.irq\n                key: a1\n      - id: b2\n        if: \"true\"\n        steps:\n          - id: s21\n            acts:\n              - uses: acts.core.irq\n                key: a2\n  - id: s2\n";
pub const W3: &str = "id: w3\nsteps:\n  - id: s1\n    catches:\n      - on: e1\n        steps:\n          - id: cs\n            acts:\n              - uses: acts.core.irq\n                key: c1\n    acts:\n      - uses: acts.core.irq\n        key: a1\n        catches:\n          - on: e2\n            steps:\n              - id: ca\n                acts:\n                  - uses: acts.core.msg\n                    key: m1\n      - uses: acts.core.irq\n        key: a2\n  - id: s2\n";
pub const W4: &str = "id: w4\nsteps:\n  - id: s1\n    acts:\n      - uses: acts.core.parallel\n        key: gen\n        params:\n          in: [\"u1\", \"u2\"]\n          acts:\n            - uses: acts.core.irq\n              key: k\n  - id: s2\n";

/// a step with two coded catches (e1, e2: the handler of the first can raise the second) around an act
/// with two coded catches of its own (e3 with a handler, e4 without steps)
pub const W3B: &str = "id: w3b\nsteps:\n  - id: s1\n    catches:\n      - on: e1\n        steps:\n          - id: cs1\n            acts:\n              - uses: acts.core.irq\n                key: c1\n      - on: e2\n        steps:\n          - id: cs2\n            acts:\n              - uses: acts.core.irq\n                key: c2\n    acts:\n      - uses: acts.core.irq\n        key: a1\n        catches:\n          - on: e3\n            steps:\n              - id: ca3\n                acts:\n                  - uses: acts.core.irq\n                    key: d3\n          - on: e4\n  - id: s2\n";
/// real sibling acts: a parallel block with two interrupts, then a further act in the step
pub const W6: &str = "id: w6\nsteps:\n  - id: s1\n    acts:\n      - uses: acts.core.block\n        key: blk\n        params:\n          mode: parallel\n          acts:\n            - uses: acts.core.irq\n              key: x\n            - uses: acts.core.irq\n              key: y\n      - uses: acts.core.irq\n        key: z\n  - id: s2\n";

/// a sequential step followed by a step with a parked (`needs`) branch and an `else` branch
pub const W7: &str = "id: w7\nsteps:\n  - id: s1\n    acts:\n      - uses: acts.core.irq\n        key: a1\n  - id: s2\n    branches:\n      - id: b1\n        if: \"true\"\n        steps:\n          - id: s21\n            acts:\n              - uses: acts.core.irq\n                key: a2\n      - id: b2\n        needs: [b1]\n        steps:\n          - id: s22\n            acts:\n              - uses: acts.core.irq\n                key: a3\n      - id: b3\n        else: true\n        steps:\n          - id: s23\n  - id: s3\n";

/// env declared in the model / env written by a script / a value that propagates to the root data
pub const WE1: &str = "id: we1\nenv:\n  e1: 5\nsteps:\n  - id: s1\n    acts:\n      - uses: acts.core.irq\n        key: a1\n  - id: s2\n";
pub const WE2: &str = "id: we2\nsteps:\n  - id: s1\n    acts:\n      - uses: acts.transform.code\n        params: \"$env.e2 = 7;\"\n      - uses: acts.core.irq\n        key: a1\n  - id: s2\n    acts:\n      - uses: acts.core.irq\n        key: a2\n";
pub const WD1: &str = "id: wd1\ninputs:\n  x: 0\nsteps:\n  - id: s1\n    acts:\n      - uses: acts.transform.set\n        params:\n          x: 7\n      - uses: acts.core.irq\n        key: a1\n  - id: s2\n    acts:\n      - uses: acts.core.irq\n        key: a2\n";

/// a workflow input and a step input, both reachable by the options of one client action
pub const WD2: &str = "id: wd2\ninputs:\n  a: 0\nsteps:\n  - id: s1\n    inputs:\n      b: 0\n    acts:\n      - uses: acts.core.irq\n        key: a1\n      - uses: acts.core.irq\n        key: a2\n  - id: s2\n    acts:\n      - uses: acts.core.irq\n        key: a3\n";
