//! Check framework: work items, a pool of worker processes with a dynamic queue (large subtrees
//! are split and re-queued), merging, known findings, evidence, verdict lines.
use crate::explore::{Chooser, DfsStats, dfs_from, fnv};
use serde::{Deserialize, Serialize};
use serde_json::{Value, json};
use std::collections::{BTreeMap, BTreeSet, HashSet, VecDeque};
use std::io::{BufRead, BufReader, Write};
use std::process::{Command, Stdio};
use std::sync::{Condvar, Mutex};
use std::time::{Duration, Instant};

#[derive(Debug, Clone, Copy, PartialEq, Eq)]
pub enum Tier {
    Quick,
    Thorough,
}
impl Tier {
    pub fn name(&self) -> &'static str {
        match self {
            Tier::Quick => "quick",
            Tier::Thorough => "thorough",
        }
    }
    pub fn parse(s: &str) -> Tier {
        match s {
            "thorough" => Tier::Thorough,
            _ => Tier::Quick,
        }
    }
    pub fn pick<T>(&self, q: T, t: T) -> T {
        match self {
            Tier::Quick => q,
            Tier::Thorough => t,
        }
    }
}

#[derive(Debug, Clone, Serialize, Deserialize)]
pub struct Violation {
    pub property: String,
    pub sig: String,
    pub scenario: String,
    /// fine discriminator inside the scenario (e.g. the client history that fails)
    #[serde(default)]
    pub detail: String,
    pub what: String,
    pub replay: Value,
}

#[derive(Debug, Clone, Default, Serialize, Deserialize)]
pub struct ItemOut {
    pub executions: u64,
    pub transitions: u64,
    /// hashes of (scenario, state fingerprint) / (scenario, final observation class)
    pub state_hashes: Vec<u64>,
    pub outcome_hashes: Vec<u64>,
    pub max_enabled: u32,
    pub max_depth: u64,
    pub capped: bool,
    pub horizon_hits: u64,
    pub pruned_by_bound: u64,
    pub violations: Vec<Violation>,
    pub samples: Vec<Value>,
    pub counters: BTreeMap<String, i64>,
    pub machinery: Vec<String>,
    /// scenarios in which two schedules differed in an intermediate state
    pub schedule_sensitive: u64,
    /// unexplored subtrees to be re-queued as items of their own
    pub spill: Vec<Vec<u32>>,
}

impl ItemOut {
    pub fn count(&mut self, k: &str, n: i64) {
        *self.counters.entry(k.to_string()).or_default() += n;
    }
    pub fn add_stats(&mut self, st: &DfsStats) {
        self.executions += st.executions;
        self.transitions += st.transitions;
        self.max_enabled = self.max_enabled.max(st.max_width);
        self.max_depth = self.max_depth.max(st.max_depth as u64);
        self.capped |= st.capped;
        self.horizon_hits += st.horizon_hits;
        self.pruned_by_bound += st.pruned_by_bound;
        self.spill.extend(st.remaining.iter().cloned());
    }
    pub fn add_state(&mut self, scenario: &str, s: &str) {
        self.state_hashes.push(fnv(&format!("{scenario}|{s}")));
    }
    pub fn add_outcome(&mut self, scenario: &str, s: &str) {
        self.outcome_hashes.push(fnv(&format!("{scenario}|{s}")));
    }
}

pub struct CheckInfo {
    pub id: &'static str,
    pub level: &'static str,
    pub rule: String,
    pub assumptions: Vec<String>,
    /// wall budget in seconds of the exploration (not the build)
    pub budget_s: u64,
    /// is the enumerated space finite and meant to be covered completely?
    pub exhaustive_when_uncapped: bool,
    pub bounds: Value,
}

pub trait Check: Sync {
    fn info(&self, tier: Tier) -> CheckInfo;
    /// the work items of this tier, simplest first; each is a JSON object with at least "id" and,
    /// when several items belong to one scenario, "scenario". Items that carry "prefix" (a decision
    /// prefix) and "single" can be split further by the framework.
    fn items(&self, tier: Tier) -> Vec<Value>;
    fn run_item(&self, tier: Tier, item: &Value, out: &mut ItemOut);
}

/// observation of one execution, produced by a scenario runner
#[derive(Default)]
pub struct RunObs {
    /// hash of the complete observation log (used by the replay-twice test)
    pub digest: u64,
    /// fingerprints of the states passed (activity boundaries)
    pub states: Vec<u64>,
    /// class of the final observation
    pub outcome: String,
    pub viols: Vec<(String, String)>,
    /// fine discriminator of this execution for known-finding scopes (e.g. its client history)
    pub detail: String,
    pub log: Vec<String>,
    pub machinery: Vec<String>,
}

thread_local! {
    /// the work item being run (recorded in replay files so that `mc replay` can re-execute it)
    pub static CURRENT_ITEM: std::cell::RefCell<(String, Value)> = std::cell::RefCell::new((String::new(), Value::Null));
    /// set by `mc replay`: only this scenario is run, and only this one schedule of it
    pub static REPLAY_FILTER: std::cell::RefCell<Option<(String, Vec<u32>)>> = const { std::cell::RefCell::new(None) };
}

pub fn spill_after() -> u64 {
    std::env::var("VERIF_SPILL").ok().and_then(|s| s.parse().ok()).unwrap_or(250)
}

/// Explore one scenario with the replay DFS, collect statistics, confirm and record violations.
#[allow(clippy::too_many_arguments)]
pub fn explore_scenario(
    out: &mut ItemOut,
    property: &str,
    scenario_id: &str,
    scenario_desc: &Value,
    bound: Option<usize>,
    cap: u64,
    want_sample: bool,
    run: &dyn Fn(&mut Chooser, bool) -> RunObs,
) -> DfsStats {
    explore_scenario_from(out, property, scenario_id, scenario_desc, bound, cap, want_sample, &[], false, u64::MAX, run)
}

#[allow(clippy::too_many_arguments)]
pub fn explore_scenario_from(
    out: &mut ItemOut,
    property: &str,
    scenario_id: &str,
    scenario_desc: &Value,
    bound: Option<usize>,
    cap: u64,
    want_sample: bool,
    start: &[u32],
    single: bool,
    spill: u64,
    run: &dyn Fn(&mut Chooser, bool) -> RunObs,
) -> DfsStats {
    let mut states: HashSet<u64> = HashSet::new();
    let filter = REPLAY_FILTER.with(|f| f.borrow().clone());
    let (start, single, want_sample): (Vec<u32>, bool, bool) = match &filter {
        Some((scn, _)) if scn != scenario_id => return DfsStats::default(),
        Some((_, schedule)) => (schedule.clone(), true, false),
        None => (start.to_vec(), single, want_sample),
    };
    let start = &start[..];
    let (item_tier, item_json) = CURRENT_ITEM.with(|c| c.borrow().clone());
    // an activity that was ended by the point limit (it span inside the engine) is a violation of
    // whatever is being checked: nothing the engine does may fail to return
    let run = &|ch: &mut Chooser, log: bool| -> RunObs {
        crate::world::DIVERGED.store(false, std::sync::atomic::Ordering::SeqCst);
        let mut o = run(ch, log);
        if crate::world::DIVERGED.swap(false, std::sync::atomic::Ordering::SeqCst) {
            o.viols.retain(|(s, _)| s != "panic");
            o.viols.insert(0, ("diverges/activity".into(), format!("an engine activity passed {} scheduling points without returning (it spins inside one call); ended by the harness", crate::world::point_limit())));
        } else if ch.horizon_hit && !o.viols.iter().any(|(s, _)| s.starts_with("livelock")) {
            // every model of every check is finite: an execution that is still producing work at the
            // horizon is the engine feeding itself
            o.viols.push(("livelock/horizon".into(), "the execution was still producing engine work at the activity horizon although the model is finite".into()));
        }
        o
    };
    let mut outcomes: BTreeSet<String> = BTreeSet::new();
    let mut seen_sigs: BTreeSet<(String, String)> = BTreeSet::new();
    let mut viols: Vec<Violation> = vec![];
    let mut per_sig: BTreeMap<String, usize> = BTreeMap::new();
    let mut machinery: Vec<String> = vec![];
    let mut first_states: Option<Vec<u64>> = None;
    let mut sensitive = false;
    // once a violation that KNOWN_FINDINGS.txt does not list is confirmed the verdict of the check
    // is settled; the scenario is explored a little further (other signatures) and then left
    static FINDINGS: std::sync::OnceLock<Vec<Finding>> = std::sync::OnceLock::new();
    let findings = FINDINGS.get_or_init(load_findings);
    let mut unlisted_at: Option<u64> = None;
    let mut execs: u64 = 0;
    let st = dfs_from(
        bound,
        cap,
        start,
        single,
        spill,
        |ch| run(ch, false),
        |ch, o: RunObs| {
            execs += 1;
            for s in &o.states {
                states.insert(*s);
            }
            match &first_states {
                None => first_states = Some(o.states.clone()),
                Some(f) => {
                    if *f != o.states {
                        sensitive = true;
                    }
                }
            }
            outcomes.insert(o.outcome.clone());
            machinery.extend(o.machinery.iter().cloned());
            for (sig, what) in &o.viols {
                if seen_sigs.insert((sig.clone(), o.detail.clone())) {
                    // replay twice from scratch; the observation must be identical
                    let mut c1 = Chooser::new(&ch.taken);
                    c1.want_labels = true;
                    let o1 = run(&mut c1, true);
                    let mut c2 = Chooser::new(&ch.taken);
                    let o2 = run(&mut c2, true);
                    if o1.digest != o.digest || o2.digest != o.digest || !o1.viols.iter().any(|(s, _)| s == sig) {
                        machinery.push(format!(
                            "violation {sig} in {scenario_id} did not reproduce on replay (digests {} {} {})",
                            o.digest, o1.digest, o2.digest
                        ));
                        continue;
                    }
                    // the full replay (decisions + log) is kept for the first cases of a signature only
                    let n = per_sig.entry(sig.clone()).or_insert(0usize);
                    *n += 1;
                    let replay = if *n <= 2 {
                        json!({"property": property, "signature": sig, "scenario": scenario_id, "detail": o.detail, "desc": scenario_desc,
                            "schedule": ch.taken, "decisions": c1.labels, "what": what, "log": o1.log, "tier": item_tier, "item": item_json})
                    } else {
                        json!({"property": property, "signature": sig, "scenario": scenario_id, "detail": o.detail, "schedule": ch.taken, "what": what,
                            "tier": item_tier, "item": item_json})
                    };
                    let v = Violation {
                        property: property.to_string(),
                        sig: sig.clone(),
                        scenario: scenario_id.to_string(),
                        detail: o.detail.clone(),
                        what: what.clone(),
                        replay,
                    };
                    if unlisted_at.is_none() && !findings.iter().any(|f| finding_matches(f, &v)) {
                        unlisted_at = Some(execs);
                    }
                    viols.push(v);
                }
            }
            !matches!(unlisted_at, Some(at) if execs >= at + 300)
        },
    );
    if want_sample {
        // written out in full: the default schedule with its decisions and log
        let mut c = Chooser::new(&[]);
        c.want_labels = true;
        let o = run(&mut c, true);
        out.samples.push(json!({"scenario": scenario_id, "desc": scenario_desc, "schedule": c.taken, "decisions": c.labels,
            "log": o.log, "outcome": o.outcome}));
    }
    out.add_stats(&st);
    for s in states {
        out.state_hashes.push(s ^ fnv(scenario_id));
    }
    for o in outcomes {
        out.add_outcome(scenario_id, &o);
    }
    if sensitive {
        out.schedule_sensitive += 1;
    }
    out.violations.extend(viols);
    out.machinery.extend(machinery);
    st
}

#[derive(Debug, Clone)]
pub struct Finding {
    pub property: String,
    pub sig: regex::Regex,
    pub scenario: regex::Regex,
    pub detail: regex::Regex,
    pub text: String,
    pub line: String,
}

pub fn verif_root() -> String {
    std::env::var("VERIF_ROOT").unwrap_or_else(|_| "/verif".to_string())
}

/// KNOWN_FINDINGS.txt lines:
///   finding: property=<id> sig=<regex> scenario=<regex> detail=<regex> :: <what fails>
/// The regexes are anchored; `detail` is the fine discriminator of a violation inside its scenario
/// (for history checks the client history that fails). A missing field matches everything.
pub fn load_findings() -> Vec<Finding> {
    let root = verif_root();
    let mut v = vec![];
    let text = std::fs::read_to_string(format!("{root}/KNOWN_FINDINGS.txt")).unwrap_or_default();
    for line in text.lines() {
        let line = line.trim();
        if !line.starts_with("finding:") {
            continue;
        }
        let (head, tail) = match line.split_once("::") {
            Some(x) => x,
            None => (line, ""),
        };
        let mut property = String::new();
        let mut sig = ".*".to_string();
        let mut scenario = ".*".to_string();
        let mut detail = ".*".to_string();
        for tok in head["finding:".len()..].split_whitespace() {
            if let Some(x) = tok.strip_prefix("property=") {
                property = x.to_string();
            } else if let Some(x) = tok.strip_prefix("sig=") {
                sig = x.to_string();
            } else if let Some(x) = tok.strip_prefix("scenario=") {
                scenario = x.to_string();
            } else if let Some(x) = tok.strip_prefix("detail=") {
                detail = x.to_string();
            }
        }
        let re = |s: &str| regex::Regex::new(&format!("^(?:{s})$")).unwrap_or_else(|e| {
            println!("MACHINERY: bad regex in KNOWN_FINDINGS.txt: {s}: {e}");
            std::process::exit(2)
        });
        v.push(Finding {
            property,
            sig: re(&sig),
            scenario: re(&scenario),
            detail: re(&detail),
            text: tail.trim().to_string(),
            line: line.to_string(),
        });
    }
    v
}

fn finding_matches(f: &Finding, v: &Violation) -> bool {
    f.property == v.property && f.sig.is_match(&v.sig) && f.scenario.is_match(&v.scenario) && f.detail.is_match(&v.detail)
}

/// worker process: items arrive as JSON lines on stdin, one result line per item on stdout
pub fn run_worker(check: &dyn Check, tier: Tier) {
    crate::world::install_panic_hook_quiet();
    if std::env::var("VERIF_DEBUG").is_err() {
        // the engine prints task errors with eprintln!; keep the check output readable
        unsafe {
            let fd = libc::open(c"/dev/null".as_ptr(), libc::O_WRONLY);
            if fd >= 0 {
                libc::dup2(fd, 2);
            }
        }
    }
    let stdin = std::io::stdin();
    let stdout = std::io::stdout();
    for line in stdin.lock().lines().map_while(Result::ok) {
        let item: Value = match serde_json::from_str(&line) {
            Ok(v) => v,
            Err(_) => continue,
        };
        let t0 = Instant::now();
        let mut out = ItemOut::default();
        CURRENT_ITEM.with(|c| *c.borrow_mut() = (tier.name().to_string(), item.clone()));
        let r = std::panic::catch_unwind(std::panic::AssertUnwindSafe(|| {
            check.run_item(tier, &item, &mut out);
        }));
        if let Err(e) = r {
            let msg = e
                .downcast_ref::<String>()
                .cloned()
                .or_else(|| e.downcast_ref::<&str>().map(|s| s.to_string()))
                .unwrap_or_else(|| "panic".into());
            out.machinery.push(format!("item {} panicked in the harness: {}", item["id"], msg));
        }
        if std::env::var("VERIF_DEBUG").is_ok() {
            eprintln!("item {} took {:.2}s executions {} spill {}", item["id"], t0.elapsed().as_secs_f64(), out.executions, out.spill.len());
        }
        let mut o = stdout.lock();
        // resident set of this worker: the parent replaces a worker that has grown large
        let rss_mb = std::fs::read_to_string("/proc/self/statm").ok().and_then(|s| s.split_whitespace().nth(1).and_then(|x| x.parse::<u64>().ok())).unwrap_or(0) * 4 / 1024;
        let _ = writeln!(o, "{}", json!({"out": out, "rss_mb": rss_mb}));
        let _ = o.flush();
    }
}

pub fn nworkers() -> usize {
    std::env::var("VERIF_WORKERS")
        .ok()
        .and_then(|s| s.parse().ok())
        .unwrap_or_else(|| std::thread::available_parallelism().map(|n| n.get()).unwrap_or(8).min(16))
}

struct Queue {
    items: VecDeque<Value>,
    in_flight: usize,
    skipped: usize,
}

/// parent: run all items in worker processes, merge, write evidence, print verdict lines; returns exit code
pub fn run_check(check: &dyn Check, tier: Tier) -> i32 {
    let t0 = Instant::now();
    let info = check.info(tier);
    crate::world::install_panic_hook_quiet();
    if std::env::var("VERIF_DEBUG").is_err() {
        // the engine prints task errors with eprintln!; everything this program reports goes to stdout
        unsafe {
            let fd = libc::open(c"/dev/null".as_ptr(), libc::O_WRONLY);
            if fd >= 0 {
                libc::dup2(fd, 2);
            }
        }
    }
    let mut items = check.items(tier);
    let n = items.len();
    if std::env::var("VERIF_DEBUG").is_ok() {
        eprintln!("items computed in {:.2}s: {}", t0.elapsed().as_secs_f64(), n);
    }
    if let Ok(f) = std::env::var("VERIF_ONLY") {
        // debugging aid (never set by the registered commands): only the scenarios whose id contains the text
        items.retain(|i| i["scenario"].as_str().unwrap_or_else(|| i["id"].as_str().unwrap_or("")).contains(&f));
    }
    let scenario_ids: BTreeSet<String> = items
        .iter()
        .map(|i| i["scenario"].as_str().unwrap_or_else(|| i["id"].as_str().unwrap_or("")).to_string())
        .collect();
    let seed: u64 = std::env::var("VERIF_SEED").ok().and_then(|s| s.parse().ok()).unwrap_or(0);
    if seed != 0 && !items.is_empty() {
        // the seed only rotates the order in which items are handed out; coverage does not depend on it
        let r = (seed as usize) % items.len();
        items.rotate_left(r);
    }
    let workers = nworkers();
    let recycle: usize = std::env::var("VERIF_RECYCLE").ok().and_then(|s| s.parse().ok()).unwrap_or(400);
    let rss_limit_mb: u64 = std::env::var("VERIF_WORKER_RSS_MB").ok().and_then(|s| s.parse().ok()).unwrap_or(1200);
    let exe = std::env::current_exe().expect("current exe");
    let queue = Mutex::new(Queue {
        items: items.into_iter().collect(),
        in_flight: 0,
        skipped: 0,
    });
    let cv = Condvar::new();
    let results: Mutex<Vec<ItemOut>> = Mutex::new(vec![]);
    let machinery: Mutex<Vec<String>> = Mutex::new(vec![]);
    let total_items = Mutex::new(n);
    let budget = Duration::from_secs(info.budget_s);
    std::thread::scope(|sc| {
        for _ in 0..workers.min(n.max(1)) {
            sc.spawn(|| {
                let spawn = || {
                    let mut child = Command::new(&exe)
                        .args(["worker", info.id, tier.name()])
                        .stdin(Stdio::piped())
                        .stdout(Stdio::piped())
                        .stderr(Stdio::inherit())
                        .spawn()
                        .expect("spawn worker");
                    let stdin = child.stdin.take().unwrap();
                    let rd = BufReader::new(child.stdout.take().unwrap());
                    (child, stdin, rd)
                };
                let (mut child, mut stdin, mut rd) = spawn();
                let mut served = 0usize;
                loop {
                    // take the next item, or wait for spills of items in flight
                    let item = {
                        let mut q = queue.lock().unwrap();
                        loop {
                            if t0.elapsed() > budget && !q.items.is_empty() {
                                q.skipped += q.items.len();
                                q.items.clear();
                                cv.notify_all();
                            }
                            if let Some(it) = q.items.pop_front() {
                                q.in_flight += 1;
                                break Some(it);
                            }
                            if q.in_flight == 0 {
                                break None;
                            }
                            q = cv.wait_timeout(q, Duration::from_millis(200)).unwrap().0;
                        }
                    };
                    let item = match item {
                        Some(i) => i,
                        None => break,
                    };
                    let mut line = String::new();
                    let ok = writeln!(stdin, "{}", item).is_ok()
                        && stdin.flush().is_ok()
                        && rd.read_line(&mut line).map(|n| n > 0).unwrap_or(false);
                    let parsed = if ok { serde_json::from_str::<Value>(&line).ok() } else { None };
                    let rss_mb = parsed.as_ref().and_then(|v| v["rss_mb"].as_u64()).unwrap_or(0);
                    let out = parsed.and_then(|v| serde_json::from_value::<ItemOut>(v["out"].clone()).ok());
                    let mut q = queue.lock().unwrap();
                    q.in_flight -= 1;
                    match out {
                        Some(mut o) => {
                            for (k, p) in std::mem::take(&mut o.spill).into_iter().enumerate() {
                                let mut it = item.clone();
                                it["prefix"] = json!(p);
                                it["single"] = json!(false);
                                it["id"] = json!(format!("{}+{}", item["id"].as_str().unwrap_or(""), k));
                                q.items.push_back(it);
                                *total_items.lock().unwrap() += 1;
                            }
                            results.lock().unwrap().push(o);
                        }
                        None => {
                            machinery
                                .lock()
                                .unwrap()
                                .push(format!("worker died or sent garbage on item {}", item["id"]));
                            drop(q);
                            let _ = child.kill();
                            let _ = child.wait();
                            (child, stdin, rd) = spawn();
                            served = 0;
                            cv.notify_all();
                            continue;
                        }
                    }
                    cv.notify_all();
                    drop(q);
                    served += 1;
                    if served >= recycle || rss_mb > rss_limit_mb {
                        // bound the memory of a worker process
                        drop(stdin);
                        let _ = child.wait();
                        (child, stdin, rd) = spawn();
                        served = 0;
                    }
                }
                drop(stdin);
                let _ = child.wait();
            });
        }
    });
    let skipped = queue.lock().unwrap().skipped;
    let n = *total_items.lock().unwrap();
    let results = results.into_inner().unwrap();
    let mut machinery = machinery.into_inner().unwrap();
    let mut total = ItemOut::default();
    let mut states: HashSet<u64> = HashSet::new();
    let mut outcomes: HashSet<u64> = HashSet::new();
    let mut items_with_choice = 0u64;
    for o in results.iter() {
        total.executions += o.executions;
        total.transitions += o.transitions;
        states.extend(o.state_hashes.iter().copied());
        outcomes.extend(o.outcome_hashes.iter().copied());
        total.max_enabled = total.max_enabled.max(o.max_enabled);
        total.max_depth = total.max_depth.max(o.max_depth);
        total.capped |= o.capped;
        total.horizon_hits += o.horizon_hits;
        total.pruned_by_bound += o.pruned_by_bound;
        total.schedule_sensitive += o.schedule_sensitive;
        if o.max_enabled > 1 {
            items_with_choice += 1;
        }
        for (k, v) in &o.counters {
            *total.counters.entry(k.clone()).or_default() += v;
        }
        if total.samples.len() < 3 {
            total.samples.extend(o.samples.iter().take(3 - total.samples.len()).cloned());
        }
        total.violations.extend(o.violations.iter().cloned());
        machinery.extend(o.machinery.iter().cloned());
    }
    // verdict
    let findings = load_findings();
    let mut known_hit: BTreeMap<usize, BTreeSet<String>> = BTreeMap::new();
    let mut fresh: Vec<&Violation> = vec![];
    let mut seen: BTreeSet<(String, String, String)> = BTreeSet::new();
    for v in &total.violations {
        if !seen.insert((v.sig.clone(), v.scenario.clone(), v.detail.clone())) {
            continue;
        }
        match findings.iter().position(|f| finding_matches(f, v)) {
            Some(i) => {
                known_hit.entry(i).or_default().insert(format!("{}|{}|{}", v.scenario, v.sig, v.detail));
            }
            None => fresh.push(v),
        }
    }
    let root = verif_root();
    let _ = std::fs::remove_dir_all(format!("{root}/replays/{}", info.id));
    let mut exit = 0;
    for (i, scs) in &known_hit {
        let f = &findings[*i];
        println!("KNOWN-FINDING: property={} {} [{} case(s)]", f.property, f.text, scs.len());
    }
    let mut fresh_sigs: BTreeMap<String, usize> = BTreeMap::new();
    for v in &fresh {
        let e = fresh_sigs.entry(v.sig.clone()).or_insert(0);
        *e += 1;
        if *e <= 2 {
            let dir = format!("{root}/replays/{}", v.property);
            let _ = std::fs::create_dir_all(&dir);
            let path = format!("{dir}/{:016x}.json", fnv(&format!("{}|{}|{}", v.sig, v.scenario, v.detail)));
            let _ = std::fs::write(&path, serde_json::to_string_pretty(&v.replay).unwrap_or_default());
            println!("VIOLATION property={} replay={}", v.property, path);
            println!("  signature={} scenario={} detail={} :: {}", v.sig, v.scenario, v.detail, v.what);
        }
        exit = 1;
    }
    for (sig, cnt) in &fresh_sigs {
        println!("  {cnt} case(s) violate {} with signature {sig}", info.id);
    }
    if std::env::var("VERIF_EMIT_SCOPE").is_ok() {
        // helper for maintaining findings/*.scope files: signature <tab> scenario of every violation
        for (sig, scenario, detail) in &seen {
            println!("SCOPE\t{scenario}\t{sig}\t{detail}");
        }
    }
    // vacuity and machinery
    if total.executions == 0 && total.counters.get("evaluations").copied().unwrap_or(0) == 0 {
        machinery.push("nothing was explored".into());
    }
    if info.level == "model_checking"
        && n > 0
        && total.max_enabled <= 1
        && total.counters.get("edges").copied().unwrap_or(0) == 0
    {
        machinery.push("vacuous exploration: no decision ever had more than one alternative".into());
    }
    let exhaustive = info.exhaustive_when_uncapped && !total.capped && skipped == 0 && total.horizon_hits == 0;
    let wall = t0.elapsed().as_secs_f64();
    let n_states = (states.len() as i64).max(total.counters.get("states").copied().unwrap_or(0)).max(1);
    let n_trans = (total.transitions as i64).max(total.counters.get("edges").copied().unwrap_or(0)).max(1);
    let mut coverage = json!({
        "states": n_states,
        "transitions": n_trans,
        "traces_validated_against_impl": total.executions.max(total.counters.get("edges").copied().unwrap_or(0) as u64),
        "evaluations": total.executions.max(total.counters.get("evaluations").copied().unwrap_or(0) as u64),
        "distinct_nontrivial": total.counters.get("distinct_nontrivial").copied().unwrap_or(outcomes.len() as i64).max(0),
        "rule": info.rule,
        "samples": total.samples,
        "exhaustive": exhaustive,
        "scenarios": scenario_ids.len(),
        "work_items": n,
        "work_items_skipped_by_wall_cap": skipped,
        "work_items_with_a_real_choice": items_with_choice,
        "scenarios_where_schedules_differed": total.schedule_sensitive,
        "max_simultaneously_enabled": total.max_enabled,
        "max_decisions_per_execution": total.max_depth,
        "distinct_final_observations": outcomes.len(),
        "execution_cap_hit": total.capped,
        "horizon_hits": total.horizon_hits,
        "alternatives_beyond_deviation_bound": total.pruned_by_bound,
        "bounds": info.bounds,
        "counters": total.counters,
        "known_findings_hit": known_hit.iter().map(|(i, c)| json!({"finding": findings[*i].text, "cases": c.len()})).collect::<Vec<_>>(),
        "machinery_errors": machinery,
        "workers": workers,
    });
    if info.level != "model_checking" {
        let c = coverage.as_object_mut().unwrap();
        c.remove("states");
        c.remove("transitions");
        c.remove("traces_validated_against_impl");
    }
    let ev = json!({
        "property_id": info.id,
        "tier": tier.name(),
        "seed": seed,
        "level": info.level,
        "coverage": coverage,
        "assumptions": info.assumptions,
        "wall_s": wall,
        "violations": fresh.len(),
    });
    let _ = std::fs::create_dir_all(format!("{root}/evidence"));
    let path = format!("{root}/evidence/{}.json", info.id);
    std::fs::write(&path, serde_json::to_string_pretty(&ev).unwrap()).expect("write evidence");
    println!(
        "{} {}: scenarios={} items={} executions={} transitions={} states={} outcomes={} max_enabled={} exhaustive={} capped={} skipped={} violations={} known={} wall={:.1}s",
        info.id,
        tier.name(),
        scenario_ids.len(),
        n,
        total.executions,
        total.transitions,
        states.len(),
        outcomes.len(),
        total.max_enabled,
        exhaustive,
        total.capped,
        skipped,
        fresh.len(),
        known_hit.values().map(|s| s.len()).sum::<usize>(),
        wall
    );
    for (k, v) in &total.counters {
        println!("  {k} = {v}");
    }
    if !machinery.is_empty() {
        for m in machinery.iter().take(10) {
            println!("MACHINERY: {m}");
        }
        if exit == 0 {
            exit = 2;
        }
    }
    exit
}
