//! Check framework: work items, worker processes, merging, known findings, evidence, verdict lines.
use crate::explore::{Chooser, DfsStats, dfs, fnv};
use serde::{Deserialize, Serialize};
use serde_json::{Value, json};
use std::collections::{BTreeMap, BTreeSet, HashSet};
use std::io::{BufRead, BufReader, Write};
use std::process::{Command, Stdio};
use std::time::{Duration, Instant};

#[derive(Debug, Clone, Copy, PartialEq, Eq)]
pub enum Tier {
    Quick,
    Thorough,
}
impl Tier {
    pub fn name(&self) -> &'static str {
        match self {
            Tier::Quick => "quick",
            Tier::Thorough => "thorough",
        }
    }
    pub fn parse(s: &str) -> Tier {
        match s {
            "thorough" => Tier::Thorough,
            _ => Tier::Quick,
        }
    }
    pub fn pick<T>(&self, q: T, t: T) -> T {
        match self {
            Tier::Quick => q,
            Tier::Thorough => t,
        }
    }
}

#[derive(Debug, Clone, Serialize, Deserialize)]
pub struct Violation {
    pub property: String,
    pub sig: String,
    pub scenario: String,
    pub what: String,
    pub replay: Value,
}

#[derive(Debug, Clone, Default, Serialize, Deserialize)]
pub struct ItemOut {
    pub executions: u64,
    pub transitions: u64,
    pub states: u64,
    pub outcomes: u64,
    pub max_enabled: u32,
    pub max_depth: u64,
    pub capped: bool,
    pub horizon_hits: u64,
    pub pruned_by_bound: u64,
    pub violations: Vec<Violation>,
    pub samples: Vec<Value>,
    pub counters: BTreeMap<String, i64>,
    pub machinery: Vec<String>,
    /// scenarios in which two schedules differed in an intermediate state
    pub schedule_sensitive: u64,
}

impl ItemOut {
    pub fn count(&mut self, k: &str, n: i64) {
        *self.counters.entry(k.to_string()).or_default() += n;
    }
    pub fn add_stats(&mut self, st: &DfsStats) {
        self.executions += st.executions;
        self.transitions += st.transitions;
        self.max_enabled = self.max_enabled.max(st.max_width);
        self.max_depth = self.max_depth.max(st.max_depth as u64);
        self.capped |= st.capped;
        self.horizon_hits += st.horizon_hits;
        self.pruned_by_bound += st.pruned_by_bound;
    }
}

pub struct CheckInfo {
    pub id: &'static str,
    pub level: &'static str,
    pub rule: String,
    pub assumptions: Vec<String>,
    /// wall budget in seconds of the exploration (not the build)
    pub budget_s: u64,
    /// is the enumerated space finite and meant to be covered completely?
    pub exhaustive_when_uncapped: bool,
    pub bounds: Value,
}

pub trait Check: Sync {
    fn info(&self, tier: Tier) -> CheckInfo;
    /// ids of the work items (scenarios) of this tier, simplest first
    fn items(&self, tier: Tier) -> Vec<String>;
    fn run_item(&self, tier: Tier, idx: usize, id: &str, out: &mut ItemOut);
}

/// observation of one execution, produced by a scenario runner
#[derive(Default)]
pub struct RunObs {
    /// hash of the complete observation log (used by the replay-twice test)
    pub digest: u64,
    /// fingerprints of the states passed (activity boundaries)
    pub states: Vec<u64>,
    /// class of the final observation
    pub outcome: String,
    pub viols: Vec<(String, String)>,
    pub log: Vec<String>,
    pub machinery: Vec<String>,
}

/// Explore one scenario with the replay DFS, collect statistics, confirm and record violations.
#[allow(clippy::too_many_arguments)]
pub fn explore_scenario(
    out: &mut ItemOut,
    property: &str,
    scenario_id: &str,
    scenario_desc: &Value,
    bound: Option<usize>,
    cap: u64,
    want_sample: bool,
    run: &dyn Fn(&mut Chooser, bool) -> RunObs,
) -> DfsStats {
    let mut states: HashSet<u64> = HashSet::new();
    let mut outcomes: BTreeSet<String> = BTreeSet::new();
    let mut seen_sigs: BTreeSet<String> = BTreeSet::new();
    let mut viols: Vec<Violation> = vec![];
    let mut machinery: Vec<String> = vec![];
    let mut sample: Option<Value> = None;
    let mut first_states: Option<Vec<u64>> = None;
    let mut sensitive = false;
    let st = dfs(
        bound,
        cap,
        |ch| run(ch, false),
        |ch, o: RunObs| {
            for s in &o.states {
                states.insert(*s);
            }
            match &first_states {
                None => first_states = Some(o.states.clone()),
                Some(f) => {
                    if *f != o.states {
                        sensitive = true;
                    }
                }
            }
            outcomes.insert(o.outcome.clone());
            machinery.extend(o.machinery.iter().cloned());
            for (sig, what) in &o.viols {
                if seen_sigs.insert(sig.clone()) {
                    // replay twice from scratch; the observation must be identical
                    let mut c1 = Chooser::new(&ch.taken);
                    c1.want_labels = true;
                    let o1 = run(&mut c1, true);
                    let mut c2 = Chooser::new(&ch.taken);
                    let o2 = run(&mut c2, true);
                    if o1.digest != o.digest || o2.digest != o.digest || !o1.viols.iter().any(|(s, _)| s == sig) {
                        machinery.push(format!(
                            "violation {sig} in {scenario_id} did not reproduce on replay (digests {} {} {})",
                            o.digest, o1.digest, o2.digest
                        ));
                        continue;
                    }
                    viols.push(Violation {
                        property: property.to_string(),
                        sig: sig.clone(),
                        scenario: scenario_id.to_string(),
                        what: what.clone(),
                        replay: json!({"property": property, "signature": sig, "scenario": scenario_id, "desc": scenario_desc,
                            "schedule": ch.taken, "decisions": c1.labels, "what": what, "log": o1.log}),
                    });
                }
            }
            if want_sample && sample.is_none() {
                sample = Some(json!({"scenario": scenario_id, "schedule": ch.taken, "outcome": o.outcome}));
            }
            true
        },
    );
    if want_sample {
        // written out in full: the default schedule with its decisions and log
        let mut c = Chooser::new(&[]);
        c.want_labels = true;
        let o = run(&mut c, true);
        out.samples.push(json!({"scenario": scenario_id, "desc": scenario_desc, "schedule": c.taken, "decisions": c.labels,
            "log": o.log, "outcome": o.outcome, "schedules_explored": st.executions}));
    }
    out.add_stats(&st);
    out.states += states.len() as u64;
    out.outcomes += outcomes.len() as u64;
    if sensitive {
        out.schedule_sensitive += 1;
    }
    out.violations.extend(viols);
    out.machinery.extend(machinery);
    st
}

#[derive(Debug, Clone)]
pub struct Finding {
    pub property: String,
    pub sig: String,
    pub scope: String,
    pub text: String,
    pub scenarios: Option<BTreeSet<String>>,
}

pub fn verif_root() -> String {
    std::env::var("VERIF_ROOT").unwrap_or_else(|_| "/verif".to_string())
}

pub fn load_findings() -> Vec<Finding> {
    let root = verif_root();
    let mut v = vec![];
    let text = std::fs::read_to_string(format!("{root}/KNOWN_FINDINGS.txt")).unwrap_or_default();
    for line in text.lines() {
        let line = line.trim();
        if !line.starts_with("finding:") {
            continue;
        }
        let (head, tail) = match line.split_once("::") {
            Some(x) => x,
            None => (line, ""),
        };
        let mut property = String::new();
        let mut sig = String::new();
        let mut scope = String::from("*");
        for tok in head["finding:".len()..].split_whitespace() {
            if let Some(x) = tok.strip_prefix("property=") {
                property = x.to_string();
            } else if let Some(x) = tok.strip_prefix("sig=") {
                sig = x.to_string();
            } else if let Some(x) = tok.strip_prefix("scope=") {
                scope = x.to_string();
            }
        }
        let scenarios = if scope == "*" {
            None
        } else {
            let t = std::fs::read_to_string(format!("{root}/{scope}")).unwrap_or_default();
            Some(t.lines().map(|l| l.trim().to_string()).filter(|l| !l.is_empty() && !l.starts_with('#')).collect())
        };
        v.push(Finding {
            property,
            sig,
            scope,
            text: tail.trim().to_string(),
            scenarios,
        });
    }
    v
}

fn finding_matches(f: &Finding, v: &Violation) -> bool {
    f.property == v.property
        && f.sig == v.sig
        && match &f.scenarios {
            None => true,
            Some(s) => s.contains(&v.scenario),
        }
}

pub fn run_worker(check: &dyn Check, tier: Tier, start: usize, end: usize, deadline_s: u64) {
    crate::world::install_panic_hook_quiet();
    let items = check.items(tier);
    let t0 = Instant::now();
    let stdout = std::io::stdout();
    for idx in start..end.min(items.len()) {
        if t0.elapsed() > Duration::from_secs(deadline_s) {
            let mut o = stdout.lock();
            let _ = writeln!(o, "{}", json!({"item": idx, "skipped": true}));
            continue;
        }
        let mut out = ItemOut::default();
        let r = std::panic::catch_unwind(std::panic::AssertUnwindSafe(|| {
            check.run_item(tier, idx, &items[idx], &mut out);
        }));
        if let Err(e) = r {
            let msg = e
                .downcast_ref::<String>()
                .cloned()
                .or_else(|| e.downcast_ref::<&str>().map(|s| s.to_string()))
                .unwrap_or_else(|| "panic".into());
            out.machinery.push(format!("item {} ({}) panicked in the harness: {}", idx, items[idx], msg));
        }
        let mut o = stdout.lock();
        let _ = writeln!(o, "{}", json!({"item": idx, "out": out}));
        let _ = o.flush();
    }
}

pub fn nworkers() -> usize {
    std::env::var("VERIF_WORKERS")
        .ok()
        .and_then(|s| s.parse().ok())
        .unwrap_or_else(|| std::thread::available_parallelism().map(|n| n.get()).unwrap_or(8).min(16))
}

/// parent: run all items in worker processes, merge, write evidence, print verdict lines; returns exit code
pub fn run_check(check: &dyn Check, tier: Tier) -> i32 {
    let t0 = Instant::now();
    let info = check.info(tier);
    let items = check.items(tier);
    let n = items.len();
    let seed: u64 = std::env::var("VERIF_SEED").ok().and_then(|s| s.parse().ok()).unwrap_or(0);
    let workers = nworkers();
    // chunks of items; small chunks give load balance and bound the memory of a worker process
    let chunk = std::env::var("VERIF_CHUNK")
        .ok()
        .and_then(|s| s.parse().ok())
        .unwrap_or_else(|| (n / (workers * 8)).clamp(1, 64));
    let mut chunks: Vec<(usize, usize)> = (0..n).step_by(chunk).map(|s| (s, (s + chunk).min(n))).collect();
    if seed != 0 && !chunks.is_empty() {
        // the seed only rotates the order in which chunks are handed out
        let r = (seed as usize) % chunks.len();
        chunks.rotate_left(r);
    }
    let exe = std::env::current_exe().expect("current exe");
    let queue = std::sync::Mutex::new(chunks.into_iter());
    let results: std::sync::Mutex<Vec<(usize, Option<ItemOut>)>> = std::sync::Mutex::new(vec![]);
    let machinery: std::sync::Mutex<Vec<String>> = std::sync::Mutex::new(vec![]);
    let budget = info.budget_s;
    std::thread::scope(|sc| {
        for _ in 0..workers.min(n.max(1)) {
            sc.spawn(|| {
                loop {
                    let next = queue.lock().unwrap().next();
                    let (s, e) = match next {
                        Some(x) => x,
                        None => break,
                    };
                    let remaining = budget.saturating_sub(t0.elapsed().as_secs());
                    let mut child = Command::new(&exe)
                        .args(["worker", info.id, tier.name(), &s.to_string(), &e.to_string(), &remaining.to_string()])
                        .stdout(Stdio::piped())
                        .stderr(Stdio::inherit())
                        .spawn()
                        .expect("spawn worker");
                    let rd = BufReader::new(child.stdout.take().unwrap());
                    let mut got = 0;
                    for line in rd.lines().map_while(Result::ok) {
                        if let Ok(v) = serde_json::from_str::<Value>(&line) {
                            if let Some(idx) = v.get("item").and_then(|x| x.as_u64()) {
                                got += 1;
                                if v.get("skipped").is_some() {
                                    results.lock().unwrap().push((idx as usize, None));
                                } else if let Ok(o) = serde_json::from_value::<ItemOut>(v["out"].clone()) {
                                    results.lock().unwrap().push((idx as usize, Some(o)));
                                } else {
                                    machinery.lock().unwrap().push(format!("bad worker line for item {idx}"));
                                }
                            }
                        }
                    }
                    let status = child.wait().expect("wait worker");
                    if !status.success() || got != e - s {
                        machinery.lock().unwrap().push(format!(
                            "worker for items {s}..{e} ended with {status} after {got} of {} items",
                            e - s
                        ));
                    }
                }
            });
        }
    });
    let mut results = results.into_inner().unwrap();
    results.sort_by_key(|r| r.0);
    let mut machinery = machinery.into_inner().unwrap();
    let mut total = ItemOut::default();
    let mut skipped = 0usize;
    let mut items_with_choice = 0u64;
    for (_, o) in results.iter() {
        match o {
            None => skipped += 1,
            Some(o) => {
                total.executions += o.executions;
                total.transitions += o.transitions;
                total.states += o.states;
                total.outcomes += o.outcomes;
                total.max_enabled = total.max_enabled.max(o.max_enabled);
                total.max_depth = total.max_depth.max(o.max_depth);
                total.capped |= o.capped;
                total.horizon_hits += o.horizon_hits;
                total.pruned_by_bound += o.pruned_by_bound;
                total.schedule_sensitive += o.schedule_sensitive;
                if o.max_enabled > 1 {
                    items_with_choice += 1;
                }
                for (k, v) in &o.counters {
                    *total.counters.entry(k.clone()).or_default() += v;
                }
                if total.samples.len() < 3 {
                    total.samples.extend(o.samples.iter().take(3 - total.samples.len()).cloned());
                }
                total.violations.extend(o.violations.iter().cloned());
                machinery.extend(o.machinery.iter().cloned());
            }
        }
    }
    // verdict
    let findings = load_findings();
    let mut known_hit: BTreeMap<usize, u64> = BTreeMap::new();
    let mut fresh: Vec<&Violation> = vec![];
    for v in &total.violations {
        match findings.iter().position(|f| finding_matches(f, v)) {
            Some(i) => *known_hit.entry(i).or_default() += 1,
            None => fresh.push(v),
        }
    }
    let root = verif_root();
    let mut exit = 0;
    for (i, cnt) in &known_hit {
        let f = &findings[*i];
        println!("KNOWN-FINDING: property={} {} [sig={} scenarios={}]", f.property, f.text, f.sig, cnt);
    }
    let mut fresh_sigs: BTreeMap<String, (usize, String)> = BTreeMap::new();
    for v in &fresh {
        let e = fresh_sigs.entry(v.sig.clone()).or_insert((0, String::new()));
        e.0 += 1;
        if e.0 <= 3 {
            let dir = format!("{root}/replays/{}", v.property);
            let _ = std::fs::create_dir_all(&dir);
            let path = format!("{dir}/{:016x}.json", fnv(&format!("{}|{}", v.sig, v.scenario)));
            let _ = std::fs::write(&path, serde_json::to_string_pretty(&v.replay).unwrap_or_default());
            println!("VIOLATION property={} replay={}", v.property, path);
            println!("  signature={} scenario={} :: {}", v.sig, v.scenario, v.what);
            exit = 1;
        }
    }
    for (sig, (cnt, _)) in &fresh_sigs {
        println!("  {cnt} scenario(s) violate {} with signature {sig}", info.id);
    }
    // vacuity and machinery
    if total.executions == 0 {
        machinery.push("no execution was explored".into());
    }
    if info.level == "model_checking" && n > 0 && total.max_enabled <= 1 && total.counters.get("edges").copied().unwrap_or(0) == 0 {
        machinery.push("vacuous exploration: no decision ever had more than one alternative".into());
    }
    let exhaustive = info.exhaustive_when_uncapped && !total.capped && skipped == 0 && total.horizon_hits == 0;
    let wall = t0.elapsed().as_secs_f64();
    let mut coverage = json!({
        "states": total.states.max(1),
        "transitions": total.transitions.max(1),
        "traces_validated_against_impl": total.executions,
        "evaluations": total.executions.max(total.counters.get("evaluations").copied().unwrap_or(0) as u64),
        "distinct_nontrivial": total.counters.get("distinct_nontrivial").copied().unwrap_or(total.outcomes as i64).max(0),
        "rule": info.rule,
        "samples": total.samples,
        "exhaustive": exhaustive,
        "scenarios": n,
        "scenarios_skipped_by_wall_cap": skipped,
        "scenarios_with_a_real_choice": items_with_choice,
        "scenarios_where_schedules_differed": total.schedule_sensitive,
        "max_simultaneously_enabled": total.max_enabled,
        "max_decisions_per_execution": total.max_depth,
        "distinct_final_observations": total.outcomes,
        "execution_cap_hit": total.capped,
        "horizon_hits": total.horizon_hits,
        "alternatives_beyond_deviation_bound": total.pruned_by_bound,
        "bounds": info.bounds,
        "counters": total.counters,
        "known_findings_hit": known_hit.iter().map(|(i, c)| json!({"sig": findings[*i].sig, "scenarios": c})).collect::<Vec<_>>(),
        "machinery_errors": machinery,
        "workers": workers,
    });
    if info.level != "model_checking" {
        let c = coverage.as_object_mut().unwrap();
        c.remove("states");
        c.remove("transitions");
        c.remove("traces_validated_against_impl");
    }
    let ev = json!({
        "property_id": info.id,
        "tier": tier.name(),
        "seed": seed,
        "level": info.level,
        "coverage": coverage,
        "assumptions": info.assumptions,
        "wall_s": wall,
        "violations": fresh.len(),
    });
    let _ = std::fs::create_dir_all(format!("{root}/evidence"));
    let path = format!("{root}/evidence/{}.json", info.id);
    std::fs::write(&path, serde_json::to_string_pretty(&ev).unwrap()).expect("write evidence");
    println!(
        "{} {}: scenarios={} executions={} transitions={} states={} outcomes={} max_enabled={} exhaustive={} capped={} skipped={} violations={} known={} wall={:.1}s",
        info.id,
        tier.name(),
        n,
        total.executions,
        total.transitions,
        total.states,
        total.outcomes,
        total.max_enabled,
        exhaustive,
        total.capped,
        skipped,
        fresh.len(),
        known_hit.values().sum::<u64>(),
        wall
    );
    for (k, v) in &total.counters {
        println!("  {k} = {v}");
    }
    if !machinery.is_empty() {
        for m in machinery.iter().take(10) {
            println!("MACHINERY: {m}");
        }
        if exit == 0 {
            exit = 2;
        }
    }
    exit
}
