//! C04 — Control flow conforms to the YAML. Every workflow of a bounded grammar x every valuation
//! x every schedule (A-mode exhaustive / deviation-bounded) is executed and compared with a
//! reference interpretation of the model (DESIGN appendix B.2).
use super::common::vars_of;
use crate::amode::{digest, is_terminal_state, trace_log};
use crate::explore::Chooser;
use crate::report::*;
use crate::tmode::TRun;
use crate::world::{Cfg, Session, Tr};
use serde_json::{Value, json};
use std::collections::BTreeMap;

#[derive(Clone, Copy, Debug, PartialEq, Eq)]
pub enum Cond {
    None,
    A,
    B,
}
#[derive(Clone, Copy, Debug, PartialEq, Eq)]
pub enum ActK {
    Irq,
    Msg,
    Set,
}
#[derive(Clone, Copy, Debug, PartialEq, Eq)]
pub enum BrK {
    IfA,
    IfB,
    /// `if: a < n` (loop guard)
    IfLt(i64),
    /// `if: a >= n`
    IfGe(i64),
    Else,
    Needs(usize),
}
#[derive(Clone, Debug, PartialEq)]
pub enum Body {
    Empty,
    Leaf,
    /// a step with one act
    Act(ActK, Cond),
    /// a step with the act `set a := a + 1` and a backward `next` jump to the top-level step of this index
    Loop(usize),
}
#[derive(Clone, Debug, PartialEq)]
pub enum StepK {
    Leaf,
    Acts(Vec<(ActK, Cond)>),
    Branches(Vec<(BrK, Body)>),
    /// branches and acts in one step
    Mixed(Vec<(BrK, Body)>, Vec<(ActK, Cond)>),
}
#[derive(Clone, Debug, PartialEq)]
pub struct Prog {
    pub steps: Vec<(Cond, StepK)>,
}

fn body_nodes(b: &Body) -> usize {
    match b {
        Body::Empty => 0,
        Body::Leaf => 1,
        Body::Act(..) | Body::Loop(_) => 2,
    }
}
fn step_nodes(s: &StepK) -> usize {
    match s {
        StepK::Leaf => 1,
        StepK::Acts(a) => 1 + a.len(),
        StepK::Branches(b) => 1 + b.iter().map(|(_, x)| 1 + body_nodes(x)).sum::<usize>(),
        StepK::Mixed(b, a) => 1 + a.len() + b.iter().map(|(_, x)| 1 + body_nodes(x)).sum::<usize>(),
    }
}
impl Prog {
    pub fn nodes(&self) -> usize {
        self.steps.iter().map(|(_, s)| step_nodes(s)).sum()
    }
    pub fn has_loop(&self) -> bool {
        self.steps.iter().any(|(_, s)| matches!(s, StepK::Branches(b) if b.iter().any(|(_, x)| matches!(x, Body::Loop(_)))))
    }
    pub fn has_branches(&self) -> bool {
        self.steps.iter().any(|(_, s)| matches!(s, StepK::Branches(_) | StepK::Mixed(..)))
    }
    fn conds(&self) -> Vec<Cond> {
        let mut v = vec![];
        for (c, s) in &self.steps {
            v.push(*c);
            let acts: Vec<&(ActK, Cond)> = match s {
                StepK::Acts(a) | StepK::Mixed(_, a) => a.iter().collect(),
                _ => vec![],
            };
            for (_, c) in acts {
                v.push(*c);
            }
            if let StepK::Branches(b) | StepK::Mixed(b, _) = s {
                for (k, body) in b {
                    match k {
                        BrK::IfA | BrK::IfLt(_) | BrK::IfGe(_) => v.push(Cond::A),
                        BrK::IfB => v.push(Cond::B),
                        _ => {}
                    }
                    if let Body::Act(_, c) = body {
                        v.push(*c);
                    }
                }
            }
        }
        v
    }
    pub fn uses_a(&self) -> bool {
        self.conds().contains(&Cond::A)
    }
    pub fn uses_b(&self) -> bool {
        self.conds().contains(&Cond::B)
    }
    pub fn name(&self) -> String {
        let c = |c: &Cond| match c {
            Cond::None => "",
            Cond::A => "?A",
            Cond::B => "?B",
        };
        let a = |(k, cc): &(ActK, Cond)| format!("{}{}", match k { ActK::Irq => "irq", ActK::Msg => "msg", ActK::Set => "set" }, c(cc));
        let br = |(k, b): &(BrK, Body)| {
            let k = match k {
                BrK::IfA => "ifA".to_string(),
                BrK::IfB => "ifB".to_string(),
                BrK::IfLt(n) => format!("ifA<{n}"),
                BrK::IfGe(n) => format!("ifA>={n}"),
                BrK::Else => "else".to_string(),
                BrK::Needs(j) => format!("needs{j}"),
            };
            let b = match b {
                Body::Empty => "".to_string(),
                Body::Leaf => ":leaf".to_string(),
                Body::Act(k, cc) => format!(":{}", a(&(*k, *cc))),
                Body::Loop(t) => format!(":inc,next=s{t}"),
            };
            format!("{k}{b}")
        };
        self.steps
            .iter()
            .map(|(cc, s)| {
                let s = match s {
                    StepK::Leaf => "leaf".to_string(),
                    StepK::Acts(v) => format!("[{}]", v.iter().map(a).collect::<Vec<_>>().join(",")),
                    StepK::Branches(v) => format!("{{{}}}", v.iter().map(br).collect::<Vec<_>>().join("|")),
                    StepK::Mixed(v, w) => format!("{{{}}}+[{}]", v.iter().map(br).collect::<Vec<_>>().join("|"), w.iter().map(a).collect::<Vec<_>>().join(",")),
                };
                format!("{s}{}", c(cc))
            })
            .collect::<Vec<_>>()
            .join(";")
    }
    pub fn yml(&self) -> String {
        let cond = |c: &Cond, ind: &str| match c {
            Cond::None => String::new(),
            Cond::A => format!("{ind}if: a > 0\n"),
            Cond::B => format!("{ind}if: b > 0\n"),
        };
        let act = |id: &str, (k, c): &(ActK, Cond), ind: &str| -> String {
            let mut s = format!("{ind}- id: {id}\n");
            match k {
                ActK::Irq => s += &format!("{ind}  uses: acts.core.irq\n{ind}  key: {id}\n"),
                ActK::Msg => s += &format!("{ind}  uses: acts.core.msg\n{ind}  key: {id}\n"),
                ActK::Set => s += &format!("{ind}  uses: acts.transform.set\n{ind}  key: {id}\n{ind}  params:\n{ind}    a: 1\n"),
            }
            s += &cond(c, &format!("{ind}  "));
            s
        };
        let mut s = String::from("id: m4\ninputs:\n  a: 0\n  b: 0\nsteps:\n");
        for (i, (c, st)) in self.steps.iter().enumerate() {
            let sid = format!("s{i}");
            s += &format!("  - id: {sid}\n");
            s += &cond(c, "    ");
            let (brs, acts): (Vec<&(BrK, Body)>, Vec<&(ActK, Cond)>) = match st {
                StepK::Leaf => (vec![], vec![]),
                StepK::Acts(a) => (vec![], a.iter().collect()),
                StepK::Branches(b) => (b.iter().collect(), vec![]),
                StepK::Mixed(b, a) => (b.iter().collect(), a.iter().collect()),
            };
            if !brs.is_empty() {
                s += "    branches:\n";
                for (j, (k, body)) in brs.iter().enumerate() {
                    s += &format!("      - id: b{i}_{j}\n");
                    match k {
                        BrK::IfA => s += "        if: a > 0\n",
                        BrK::IfB => s += "        if: b > 0\n",
                        BrK::IfLt(n) => s += &format!("        if: a < {n}\n"),
                        BrK::IfGe(n) => s += &format!("        if: a >= {n}\n"),
                        BrK::Else => s += "        else: true\n",
                        BrK::Needs(n) => s += &format!("        needs: [b{i}_{n}]\n"),
                    }
                    match body {
                        Body::Empty => {}
                        Body::Leaf => s += &format!("        steps:\n          - id: t{i}_{j}\n"),
                        Body::Act(k, c) => {
                            s += &format!("        steps:\n          - id: t{i}_{j}\n            acts:\n");
                            s += &act(&format!("u{i}_{j}"), &(*k, *c), "              ");
                        }
                        Body::Loop(t) => {
                            s += &format!("        steps:\n          - id: t{i}_{j}\n            next: s{t}\n            acts:\n              - id: u{i}_{j}\n                uses: acts.transform.set\n                params:\n                  a: '{{{{ a + 1 }}}}'\n");
                        }
                    }
                }
            }
            if !acts.is_empty() {
                s += "    acts:\n";
                for (j, a) in acts.iter().enumerate() {
                    s += &act(&format!("a{i}_{j}"), a, "      ");
                }
            }
        }
        s
    }
}

fn act_opts(with_set: bool) -> Vec<(ActK, Cond)> {
    let mut v = vec![];
    for k in [ActK::Irq, ActK::Msg, ActK::Set] {
        if k == ActK::Set && !with_set {
            continue;
        }
        for c in [Cond::None, Cond::A] {
            v.push((k, c));
        }
    }
    v
}

fn branch_lists(n: usize) -> Vec<Vec<(BrK, Body)>> {
    let mut bodies = vec![Body::Empty, Body::Leaf];
    for k in [ActK::Irq, ActK::Msg] {
        for c in [Cond::None, Cond::A] {
            bodies.push(Body::Act(k, c));
        }
    }
    let mut lists: Vec<Vec<(BrK, Body)>> = vec![vec![]];
    for i in 0..n {
        let mut kinds = vec![BrK::IfA, BrK::IfB, BrK::Else];
        for j in 0..n {
            if j != i {
                kinds.push(BrK::Needs(j));
            }
        }
        let mut next = vec![];
        for l in &lists {
            for k in &kinds {
                for b in &bodies {
                    let mut q = l.clone();
                    q.push((*k, b.clone()));
                    next.push(q);
                }
            }
        }
        lists = next;
    }
    lists.retain(|p| p.iter().filter(|(k, _)| *k == BrK::Else).count() <= 1);
    lists.retain(|p| {
        p.iter().all(|(k, _)| match k {
            BrK::Needs(j) => matches!(p[*j].0, BrK::IfA | BrK::IfB),
            _ => true,
        }) && !(p.iter().any(|(k, _)| *k == BrK::Else) && p.iter().any(|(k, _)| matches!(k, BrK::Needs(_))))
    });
    lists
}

/// every program of the grammar with at most `max_nodes` nodes, simplest first
pub fn programs(max_nodes: usize) -> Vec<Prog> {
    let mut step_kinds: Vec<StepK> = vec![StepK::Leaf];
    let a1 = act_opts(true);
    for x in &a1 {
        step_kinds.push(StepK::Acts(vec![*x]));
    }
    for x in &a1 {
        for y in &a1 {
            step_kinds.push(StepK::Acts(vec![*x, *y]));
        }
    }
    for l in branch_lists(2) {
        step_kinds.push(StepK::Branches(l));
    }
    for l in branch_lists(3) {
        step_kinds.push(StepK::Branches(l));
    }
    // branches and acts in one step (no `set` beside branches: it would race with their conditions)
    for l in branch_lists(2).into_iter().filter(|l| l.iter().all(|(_, b)| matches!(b, Body::Empty | Body::Leaf))) {
        for x in act_opts(false) {
            step_kinds.push(StepK::Mixed(l.clone(), vec![x]));
        }
    }
    step_kinds.retain(|s| step_nodes(s) <= max_nodes);
    let mut out: Vec<Prog> = vec![];
    let mut seqs: Vec<Vec<(Cond, StepK)>> = vec![vec![]];
    for _ in 0..3 {
        let mut next = vec![];
        for q in &seqs {
            let used: usize = q.iter().map(|(_, s)| step_nodes(s)).sum();
            for k in &step_kinds {
                if used + step_nodes(k) > max_nodes {
                    continue;
                }
                for c in [Cond::None, Cond::A, Cond::B] {
                    let mut r = q.clone();
                    r.push((c, k.clone()));
                    next.push(r);
                }
            }
        }
        for q in &next {
            out.push(Prog { steps: q.clone() });
        }
        seqs = next;
    }
    out.sort_by_key(|p| p.nodes());
    out
}

/// the loop family: a backward `next` jump out of a conditional branch (the only kind of jump that ends)
pub fn loop_programs(tier: Tier) -> Vec<Prog> {
    let mut v = vec![];
    let heads: Vec<Vec<(Cond, StepK)>> = {
        let mut h = vec![
            vec![(Cond::None, StepK::Leaf)],
            vec![(Cond::None, StepK::Acts(vec![(ActK::Irq, Cond::None)]))],
            vec![(Cond::None, StepK::Acts(vec![(ActK::Msg, Cond::None)]))],
            vec![(Cond::A, StepK::Acts(vec![(ActK::Irq, Cond::None)]))],
            // a needs branch in the head: in every round it waits for the needed sibling of that round
            vec![(Cond::None, StepK::Branches(vec![(BrK::IfB, Body::Act(ActK::Irq, Cond::None)), (BrK::Needs(0), Body::Act(ActK::Irq, Cond::None))]))],
        ];
        if tier == Tier::Thorough {
            h.push(vec![(Cond::None, StepK::Leaf), (Cond::None, StepK::Acts(vec![(ActK::Irq, Cond::A)]))]);
            h.push(vec![(Cond::None, StepK::Acts(vec![(ActK::Irq, Cond::None), (ActK::Msg, Cond::None)])), (Cond::A, StepK::Leaf)]);
            h.push(vec![(Cond::None, StepK::Branches(vec![(BrK::IfA, Body::Act(ActK::Irq, Cond::None)), (BrK::Else, Body::Leaf)]))]);
        }
        h
    };
    for head in &heads {
        let li = head.len();
        let needs_head = matches!(&head[0].1, StepK::Branches(_));
        for n in [1i64, 2, 3] {
            if tier == Tier::Quick && (n == 3 || (n == 2 && needs_head)) {
                continue;
            }
            for target in 0..=li {
                for other in [Body::Empty, Body::Leaf] {
                    let lists = vec![
                        vec![(BrK::IfLt(n), Body::Loop(target)), (BrK::Else, other.clone())],
                        vec![(BrK::Else, other.clone()), (BrK::IfLt(n), Body::Loop(target))],
                        vec![(BrK::IfGe(n), other.clone()), (BrK::Else, Body::Loop(target))],
                        vec![(BrK::Else, Body::Loop(target)), (BrK::IfGe(n), other.clone())],
                    ];
                    for l in lists {
                        for tail in [false, true] {
                            let mut steps = head.clone();
                            steps.push((Cond::None, StepK::Branches(l.clone())));
                            if tail {
                                steps.push((Cond::None, StepK::Leaf));
                            }
                            v.push(Prog { steps });
                        }
                    }
                }
            }
        }
    }
    v
}

// ---- reference interpretation --------------------------------------------------------------------

#[derive(Clone, Debug, PartialEq)]
pub enum Exp {
    /// the instance ends in this state
    State(&'static str),
    /// the text does not determine it (a container left by a jump)
    DontCare,
}

/// one expected task: the k-th instance of a node, in creation order
#[derive(Clone, Debug)]
pub struct Inst {
    pub nid: String,
    pub exp: Exp,
    /// instances that must be terminal before this one starts
    pub after: Vec<usize>,
    /// the container: it starts first and (when it completes) ends last
    pub within: Option<usize>,
}

pub struct Ref {
    pub insts: Vec<Inst>,
    /// nodes whose instances the text does not determine (a needs branch on a skipped sibling, and its body)
    pub dc_nodes: Vec<String>,
    pub declared: Vec<String>,
}

pub fn reference(p: &Prog, a0: i64, b0: i64) -> Ref {
    let mut a = a0;
    let b = b0;
    let mut r = Ref {
        insts: vec![],
        dc_nodes: vec![],
        declared: vec!["m4".into()],
    };
    for (i, (_, st)) in p.steps.iter().enumerate() {
        r.declared.push(format!("s{i}"));
        let (brs, acts): (&[(BrK, Body)], &[(ActK, Cond)]) = match st {
            StepK::Leaf => (&[], &[]),
            StepK::Acts(x) => (&[], x),
            StepK::Branches(x) => (x, &[]),
            StepK::Mixed(x, y) => (x, y),
        };
        for (j, (_, body)) in brs.iter().enumerate() {
            r.declared.push(format!("b{i}_{j}"));
            if *body != Body::Empty {
                r.declared.push(format!("t{i}_{j}"));
            }
            if matches!(body, Body::Act(..) | Body::Loop(_)) {
                r.declared.push(format!("u{i}_{j}"));
            }
        }
        for (j, _) in acts.iter().enumerate() {
            r.declared.push(format!("a{i}_{j}"));
        }
    }
    fn push(r: &mut Ref, nid: String, exp: Exp, after: Vec<usize>, within: Option<usize>) -> usize {
        r.insts.push(Inst { nid, exp, after, within });
        r.insts.len() - 1
    }
    let root = push(&mut r, "m4".into(), Exp::State("completed"), vec![], None);
    let mut prev: Vec<usize> = vec![];
    let mut i = 0usize;
    let mut guard = 0;
    while i < p.steps.len() {
        guard += 1;
        assert!(guard < 40, "the grammar only has loops that end");
        let (c, st) = &p.steps[i];
        let holds = |c: &Cond, a: i64| match c {
            Cond::None => true,
            Cond::A => a > 0,
            Cond::B => b > 0,
        };
        let (brs, acts): (&[(BrK, Body)], &[(ActK, Cond)]) = match st {
            StepK::Leaf => (&[], &[]),
            StepK::Acts(x) => (&[], x),
            StepK::Branches(x) => (x, &[]),
            StepK::Mixed(x, y) => (x, y),
        };
        if !holds(c, a) {
            let s = push(&mut r, format!("s{i}"), Exp::State("skipped"), prev.clone(), Some(root));
            prev = vec![s];
            i += 1;
            continue;
        }
        let s = push(&mut r, format!("s{i}"), Exp::State("completed"), prev.clone(), Some(root));
        // branches: all decided when the step starts
        let if_runs: Vec<Option<bool>> = brs
            .iter()
            .map(|(k, _)| match k {
                BrK::IfA => Some(a > 0),
                BrK::IfB => Some(b > 0),
                BrK::IfLt(n) => Some(a < *n),
                BrK::IfGe(n) => Some(a >= *n),
                _ => None,
            })
            .collect();
        let any_if = if_runs.iter().any(|x| *x == Some(true));
        let mut jump: Option<(usize, usize)> = None;
        let mut branch_insts: Vec<Option<usize>> = vec![None; brs.len()];
        let mut step_insts: Vec<usize> = vec![];
        // branches that do not wait first, so that `after` can point at the needed sibling
        let mut order: Vec<usize> = (0..brs.len()).filter(|j| !matches!(brs[*j].0, BrK::Needs(_))).collect();
        order.extend((0..brs.len()).filter(|j| matches!(brs[*j].0, BrK::Needs(_))));
        for j in order {
            let (k, body) = &brs[j];
            let bid = format!("b{i}_{j}");
            let (runs, dc) = match k {
                BrK::IfA | BrK::IfB | BrK::IfLt(_) | BrK::IfGe(_) => (if_runs[j].unwrap(), false),
                BrK::Else => (!any_if, false),
                BrK::Needs(n) => (true, if_runs[*n] != Some(true)),
            };
            if dc {
                r.dc_nodes.push(bid.clone());
                r.dc_nodes.push(format!("t{i}_{j}"));
                r.dc_nodes.push(format!("u{i}_{j}"));
                continue;
            }
            let bi = push(&mut r, bid, Exp::State(if runs { "completed" } else { "skipped" }), vec![], Some(s));
            branch_insts[j] = Some(bi);
            step_insts.push(bi);
            if !runs {
                continue;
            }
            let after: Vec<usize> = match k {
                BrK::Needs(n) => branch_insts[*n].into_iter().collect(),
                _ => vec![],
            };
            match body {
                Body::Empty => {}
                Body::Leaf => {
                    push(&mut r, format!("t{i}_{j}"), Exp::State("completed"), after, Some(bi));
                }
                Body::Act(_, ac) => {
                    let t = push(&mut r, format!("t{i}_{j}"), Exp::State("completed"), after, Some(bi));
                    push(&mut r, format!("u{i}_{j}"), Exp::State(if holds(ac, a) { "completed" } else { "skipped" }), vec![], Some(t));
                }
                Body::Loop(target) => {
                    let t = push(&mut r, format!("t{i}_{j}"), Exp::State("completed"), after, Some(bi));
                    push(&mut r, format!("u{i}_{j}"), Exp::State("completed"), vec![], Some(t));
                    jump = Some((*target, t));
                }
            }
        }
        // acts: strictly one after another
        let mut prev_act: Vec<usize> = vec![];
        for (j, (k, ac)) in acts.iter().enumerate() {
            let ok = holds(ac, a);
            let ai = push(&mut r, format!("a{i}_{j}"), Exp::State(if ok { "completed" } else { "skipped" }), prev_act.clone(), Some(s));
            prev_act = vec![ai];
            if ok && *k == ActK::Set {
                a = 1;
            }
        }
        if let Some((target, t)) = jump {
            // the flow leaves the step through the jump: what becomes of the containers it leaves is not
            // determined by the text (C03 records what the engine does with them)
            r.insts[s].exp = Exp::DontCare;
            for bi in step_insts {
                r.insts[bi].exp = Exp::DontCare;
            }
            a += 1;
            prev = vec![t];
            i = target;
        } else {
            prev = vec![s];
            i += 1;
        }
    }
    r
}

#[derive(Default, Debug, Clone)]
struct Seen {
    tid: String,
    start: usize,
    end: Option<usize>,
    state: String,
    kind: String,
}

/// compare a trace with the reference; returns (violations, outcome text)
pub fn judge(trace: &[Tr], p: &Prog, a: i64, b: i64) -> (Vec<(String, String)>, String) {
    let mut viols: Vec<(String, String)> = vec![];
    let mut push = |sig: String, what: String| {
        if !viols.iter().any(|(s, _)| *s == sig) {
            viols.push((sig, what));
        }
    };
    let r = reference(p, a, b);
    // per node: its instances in creation order
    let mut seen: BTreeMap<String, Vec<Seen>> = BTreeMap::new();
    let mut by_tid: BTreeMap<String, (String, usize)> = BTreeMap::new();
    for (i, t) in trace.iter().enumerate() {
        match t {
            Tr::TaskEvent { tid, nid, kind, state, pid, .. } if pid == "p1" => {
                let (n, k) = by_tid.entry(tid.clone()).or_insert_with(|| {
                    let l = seen.entry(nid.clone()).or_default();
                    l.push(Seen {
                        tid: tid.clone(),
                        start: i,
                        end: None,
                        state: String::new(),
                        kind: kind.clone(),
                    });
                    (nid.clone(), l.len() - 1)
                });
                let s = &mut seen.get_mut(n).unwrap()[*k];
                if is_terminal_state(state) && s.end.is_none() {
                    s.end = Some(i);
                }
                s.state = state.clone();
            }
            Tr::StateWrite { tid, new, pid, .. } if pid == "p1" => {
                if let Some((n, k)) = by_tid.get(tid) {
                    let s = &mut seen.get_mut(n).unwrap()[*k];
                    s.state = new.clone();
                    if is_terminal_state(new) && s.end.is_none() {
                        s.end = Some(i);
                    }
                }
            }
            _ => {}
        }
    }
    // instances in creation order: task ids are handed out by a counter when the task is created
    for l in seen.values_mut() {
        l.sort_by(|x, y| x.tid.cmp(&y.tid));
    }
    let done = trace.iter().any(|t| matches!(t, Tr::Emit { channel: "complete", .. }));
    if !done {
        push("not-finished".into(), "every interrupt was answered but the process did not complete".into());
    }
    let kind_of = |nid: &str| match nid.chars().next() {
        Some('s') | Some('t') => "step",
        Some('b') => "branch",
        Some('m') => "workflow",
        _ => "act",
    };
    // expected instances per node
    let mut exp: BTreeMap<String, Vec<usize>> = BTreeMap::new();
    for (k, inst) in r.insts.iter().enumerate() {
        exp.entry(inst.nid.clone()).or_default().push(k);
    }
    // map expected instance -> observed instance
    let mut obs: Vec<Option<Seen>> = vec![None; r.insts.len()];
    for nid in &r.declared {
        if r.dc_nodes.contains(nid) {
            continue;
        }
        let kind = kind_of(nid);
        let want = exp.get(nid).cloned().unwrap_or_default();
        let got = seen.get(nid).cloned().unwrap_or_default();
        if want.len() != got.len() {
            let sig = if want.is_empty() {
                format!("ran-unexpectedly/{kind}/{}", got[0].state)
            } else if got.is_empty() {
                match &r.insts[want[0]].exp {
                    Exp::State(s) => format!("never-ran/{kind}/{s}"),
                    Exp::DontCare => format!("never-ran/{kind}"),
                }
            } else {
                format!("instances/{kind}/{}-instead-of-{}", got.len(), want.len())
            };
            push(sig, format!("{kind} {nid}: {} instance(s) {:?}, the model yields {} (a={a}, b={b})", got.len(), got.iter().map(|g| g.state.clone()).collect::<Vec<_>>(), want.len()));
        }
        for (k, w) in want.iter().enumerate() {
            if let Some(g) = got.get(k) {
                obs[*w] = Some(g.clone());
                if let Exp::State(s) = &r.insts[*w].exp {
                    if g.state != *s {
                        push(
                            format!("final-state/{kind}/{}-instead-of-{s}", g.state),
                            format!("{kind} {nid} (instance {}) ends {}, expected {s} (a={a}, b={b})", k + 1, g.state),
                        );
                    }
                }
            }
        }
    }
    for nid in seen.keys() {
        if !r.declared.contains(nid) {
            push("unknown-node".into(), format!("a task of the node {nid} exists that the model does not declare"));
        }
    }
    // order
    for (k, inst) in r.insts.iter().enumerate() {
        let Some(me) = &obs[k] else { continue };
        for x in &inst.after {
            let Some(px) = &obs[*x] else { continue };
            match px.end {
                Some(e) if e <= me.start => {}
                _ => push(
                    format!("order/started-before-predecessor-ended/{}-{}", px.kind, me.kind),
                    format!("{} ({}) started before {} ({}) was terminal", inst.nid, me.tid, r.insts[*x].nid, px.tid),
                ),
            }
        }
        if let Some(c) = inst.within {
            if let Some(pc) = &obs[c] {
                if inst.exp == Exp::DontCare {
                    continue;
                }
                if me.start < pc.start {
                    push(format!("order/child-before-container/{}-{}", pc.kind, me.kind), format!("{} started before its container {}", inst.nid, r.insts[c].nid));
                }
                if let (Some(ec), Some(em), Exp::State("completed")) = (pc.end, me.end, &r.insts[c].exp) {
                    if ec < em {
                        push(format!("order/container-ended-first/{}-{}", pc.kind, me.kind), format!("{} completed before {} inside it had ended", r.insts[c].nid, inst.nid));
                    }
                }
                if let (Some(_), None, Exp::State("completed")) = (pc.end, me.end, &r.insts[c].exp) {
                    push(format!("order/container-ended-first/{}-{}", pc.kind, me.kind), format!("{} completed although {} inside it never ended", r.insts[c].nid, inst.nid));
                }
            }
        }
    }
    let outcome: String = seen.iter().map(|(k, n)| format!("{k}={};", n.iter().map(|x| x.state.clone()).collect::<Vec<_>>().join("+"))).collect();
    (viols, outcome)
}

pub fn run_one(ch: &mut Chooser, p: &Prog, a: i64, b: i64, want_log: bool) -> RunObs {
    let mut sess = Session::new(&Cfg::keep());
    sess.deploy(&p.yml());
    let _ = sess.start("m4", &vars_of(&json!({"pid": "p1", "a": a, "b": b})));
    let mut states = vec![];
    let mut steps = 0;
    let mut answered: std::collections::BTreeSet<String> = Default::default();
    loop {
        let acts = sess.enabled();
        let open: Vec<acts::Message> = sess.open_irqs(Some("p1")).into_iter().filter(|m| !answered.contains(&m.tid)).collect();
        let n = acts.len() + open.len();
        if n == 0 {
            break;
        }
        steps += 1;
        if steps > 400 {
            ch.horizon_hit = true;
            break;
        }
        states.push(crate::amode::fingerprint(&sess, &acts));
        let c = ch.choose(n);
        if c < acts.len() {
            ch.label(|| acts[c].label());
            sess.run(acts[c].seq);
        } else {
            let m = &open[c - acts.len()];
            ch.label(|| format!("client complete {}({})", m.tid, m.key));
            let _ = sess.act("complete", "p1", &m.tid, &acts::Vars::new());
            answered.insert(m.tid.clone());
        }
    }
    let trace = sess.w.trace_snapshot();
    let (mut viols, outcome) = if ch.horizon_hit { (vec![], "horizon".to_string()) } else { judge(&trace, p, a, b) };
    if sess.scheduler_dead || !sess.panics.is_empty() {
        viols.push(("panic".into(), format!("panics: {:?}", sess.panics)));
    }
    let log = trace_log(&trace);
    RunObs {
        digest: digest(&log, &format!("{:?}", sess.results)),
        states,
        outcome,
        viols,
        detail: String::new(),
        log: if want_log { log } else { vec![] },
        machinery: sess.machinery_errors(),
    }
}

/// T-mode: the interrupts of two parallel branches are completed by two client threads while the
/// engine's own activities run; preemption at every scheduling point up to the bound
pub fn run_threads(ch: &mut Chooser, p: &Prog, a: i64, b: i64, want_log: bool) -> RunObs {
    let mut sess = Session::new(&Cfg::keep());
    sess.deploy(&p.yml());
    let _ = sess.start("m4", &vars_of(&json!({"pid": "p1", "a": a, "b": b})));
    sess.drain();
    let mut t = TRun::new();
    let open = sess.open_irqs(Some("p1"));
    for (i, m) in open.iter().enumerate() {
        let tid = m.tid.clone();
        t.add_client(
            &sess,
            &format!("c{} complete {}", i + 1, m.key),
            Box::new(move |e| e.executor().act().complete("p1", &tid, &acts::Vars::new())),
        );
    }
    let threads = open.len();
    t.run(ch, &mut sess, 400);
    // whatever opens afterwards is answered in the default order
    let mut guard = 0;
    loop {
        sess.drain();
        let open: Vec<acts::Message> = sess.open_irqs(Some("p1"));
        let Some(m) = open.first() else { break };
        guard += 1;
        if guard > 20 || sess.act("complete", "p1", &m.tid, &acts::Vars::new()).is_err() {
            break;
        }
    }
    let trace = sess.w.trace_snapshot();
    let (mut viols, outcome) = if t.horizon_hit { (vec![], "horizon".to_string()) } else { judge(&trace, p, a, b) };
    if t.horizon_hit {
        ch.horizon_hit = true;
    }
    if sess.scheduler_dead || !sess.panics.is_empty() {
        viols.push(("panic".into(), format!("panics: {:?}", sess.panics)));
    }
    let res: Vec<(String, Result<(), String>)> = sess.results.iter().filter(|(l, _)| l.starts_with('c')).cloned().collect();
    for (l, r2) in &res {
        if r2.is_err() {
            viols.push(("threads/answer-refused".into(), format!("the call {l} on an open interrupt of its own was refused: {r2:?}")));
        }
    }
    let log = trace_log(&trace);
    RunObs {
        digest: digest(&log, &format!("{:?}", res)),
        states: vec![crate::explore::fnv(&format!("{outcome}{threads}"))],
        outcome,
        viols,
        detail: String::new(),
        log: if want_log { log } else { vec![] },
        machinery: sess.machinery_errors(),
    }
}

fn valuations(p: &Prog) -> Vec<(i64, i64)> {
    let mut v = vec![];
    for a in 0..=(p.uses_a() as i64) {
        for b in 0..=(p.uses_b() as i64) {
            v.push((a, b));
        }
    }
    v
}

pub fn selected_pub(tier: Tier) -> Vec<Prog> {
    selected(tier)
}

fn selected(tier: Tier) -> Vec<Prog> {
    let mut v: Vec<Prog> = match tier {
        // all members with <= 4 nodes, and the 5-node members that contain a branch list
        Tier::Quick => programs(5)
            .into_iter()
            .filter(|p| {
                p.nodes() <= 4
                    || (p.has_branches() && (p.steps.len() == 1 || (p.steps.len() == 2 && p.steps.iter().any(|(c, s)| *c == Cond::None && *s == StepK::Leaf))))
            })
            .collect(),
        Tier::Thorough => programs(6),
    };
    v.extend(loop_programs(tier));
    v
}

/// programs for the threaded variant: two or three branches that each hold an interrupt
fn thread_programs(tier: Tier) -> Vec<(Prog, i64, i64, usize)> {
    let irq = Body::Act(ActK::Irq, Cond::None);
    let mut v = vec![];
    let k = tier.pick(1, 2);
    let two = |k1: BrK, k2: BrK| Prog {
        steps: vec![(Cond::None, StepK::Branches(vec![(k1, irq.clone()), (k2, irq.clone())])), (Cond::None, StepK::Leaf)],
    };
    v.push((two(BrK::IfA, BrK::IfA), 1, 0, k));
    v.push((two(BrK::IfA, BrK::IfB), 1, 1, k));
    v.push((
        Prog {
            steps: vec![(Cond::None, StepK::Mixed(vec![(BrK::IfA, irq.clone()), (BrK::Else, Body::Empty)], vec![(ActK::Irq, Cond::None)])), (Cond::None, StepK::Leaf)],
        },
        1,
        0,
        k,
    ));
    if tier == Tier::Thorough {
        v.push((
            Prog {
                steps: vec![(Cond::None, StepK::Branches(vec![(BrK::IfA, irq.clone()), (BrK::IfA, irq.clone()), (BrK::IfB, irq.clone())])), (Cond::None, StepK::Leaf)],
            },
            1,
            1,
            1,
        ));
    }
    v
}

pub struct C04;

impl Check for C04 {
    fn info(&self, tier: Tier) -> CheckInfo {
        CheckInfo {
            id: "C04",
            level: "model_checking",
            rule: "every workflow of the grammar `workflow := step{1..3}; step := [if A|B] (leaf | act{1..2} | branch{2..3} | branch{2} + act); act := (irq | msg | set a:=1) [if A]; branch := (if A | if B | else | needs:[an if-sibling]) body; body := none | leaf step | step with one irq/msg act [if A]` up to the node budget, plus the loop family (a guarded branch, `if a < n` or the else of `if a >= n`, whose body increments a and jumps back with `next` to an earlier step or to its own step; n <= 2 or 3; five or eight kinds of loop head, one with a needs branch); every valuation of the variables used, every order of queued tasks and client answers (exhaustive when <= 2 regions can be open, deviation bound otherwise); compared with a reference interpretation: the instances of every node in creation order, their final states, and the order edges (step after predecessor, acts one after another, body after its branch, needs after the needed sibling, container ends after its children, re-entered step after the jumping step). Threaded variant: the interrupts of parallel branches are completed by two or three client threads with preemption at every engine scheduling point up to the bound, same oracle.".into(),
            assumptions: vec![
                "don't-care where the text decides nothing: a needs branch whose needed sibling was skipped by its condition; the final state of the containers a jump leaves behind (C03 judges those)".into(),
                "`set` acts are not placed beside branches or inside branch bodies (they would race with conditions by construction); jumps only out of a guarded branch (an unguarded backward jump never ends)".into(),
                "declaration order: every permutation of a branch list is itself a member of the grammar and the reference is order-free, so agreement with the reference for all members implies order independence within the bound".into(),
            ],
            budget_s: tier.pick(55, 1500),
            exhaustive_when_uncapped: true,
            bounds: json!({"nodes": tier.pick("<= 4, and 5 with a branch list in one step or beside a plain leaf step", "<= 6"), "deviations_when_three_regions": tier.pick(2, 4), "preemptions_threaded": tier.pick(1, 2)}),
        }
    }
    fn items(&self, tier: Tier) -> Vec<Value> {
        let progs = selected(tier);
        // the loop programs (at the end of the list) have the longest runs: small chunks, served first
        let first_loop = progs.iter().position(|p| p.has_loop()).unwrap_or(progs.len());
        let mk = |s: usize, e: usize| json!({"id": format!("progs/{s}"), "scenario": format!("progs/{s}"), "from": s, "to": e});
        let mut v: Vec<Value> = (first_loop..progs.len()).step_by(4).map(|s| mk(s, (s + 4).min(progs.len()))).collect();
        v.extend((0..first_loop).step_by(40).map(|s| mk(s, (s + 40).min(first_loop))));
        for (i, (p, a, b, k)) in thread_programs(tier).iter().enumerate() {
            let id = format!("threads/{}/a={a},b={b}/k{k}", p.name());
            let (singles, roots) = crate::explore::split_frontier(Some(*k), tier.pick(8, 48), |ch| {
                run_threads(ch, p, *a, *b, false);
            });
            for (n, pre) in singles.iter().enumerate() {
                v.push(json!({"id": format!("{id}#s{n}"), "scenario": id, "threads": i, "prefix": pre, "single": true}));
            }
            for (n, pre) in roots.iter().enumerate() {
                v.push(json!({"id": format!("{id}#{n}"), "scenario": id, "threads": i, "prefix": pre, "single": false}));
            }
        }
        v
    }
    fn run_item(&self, tier: Tier, item: &Value, out: &mut ItemOut) {
        if let Some(i) = item.get("threads").and_then(|x| x.as_u64()) {
            let (p, a, b, k) = thread_programs(tier).swap_remove(i as usize);
            let prefix: Vec<u32> = item["prefix"].as_array().unwrap().iter().map(|x| x.as_u64().unwrap() as u32).collect();
            let single = item["single"].as_bool().unwrap();
            let id = item["scenario"].as_str().unwrap().to_string();
            let desc = json!({"model": p.yml(), "a": a, "b": b, "client_threads": "one per open interrupt", "preemption_bound": k});
            let st = explore_scenario_from(out, "C04", &id, &desc, Some(k), 5_000_000, prefix.is_empty(), &prefix, single, spill_after(), &|ch, log| run_threads(ch, &p, a, b, log));
            out.count("threaded_executions", st.executions as i64);
            return;
        }
        let progs = selected(tier);
        let (from, to) = (item["from"].as_u64().unwrap() as usize, item["to"].as_u64().unwrap() as usize);
        for (k, p) in progs[from..to].iter().enumerate() {
            let three = matches!(p.steps.iter().map(|(_, s)| match s { StepK::Branches(b) => b.len(), StepK::Mixed(b, _) => b.len() + 1, _ => 0 }).max(), Some(n) if n >= 3);
            // a loop of three rounds, or one whose head opens parallel regions, multiplies its schedules with every round
            let long_loop = p.steps.iter().any(|(_, s)| matches!(s, StepK::Branches(b) if b.iter().any(|(k, _)| matches!(k, BrK::IfLt(n) | BrK::IfGe(n) if *n >= 3))));
            let wide_loop = p.has_loop() && (long_loop || p.steps.iter().filter(|(_, s)| matches!(s, StepK::Branches(_))).count() > 1);
            let bound = if three {
                Some(tier.pick(2, 4))
            } else if wide_loop {
                Some(4)
            } else {
                None
            };
            for (a, b) in valuations(p) {
                let id = format!("F_cf/{}/a={a},b={b}", p.name());
                let desc = json!({"model": p.yml(), "a": a, "b": b});
                let st = explore_scenario(out, "C04", &id, &desc, bound, 50_000, from == 0 && k == 7, &|ch, log| run_one(ch, p, a, b, log));
                out.count("programs_x_valuations", 1);
                if st.max_width > 1 {
                    out.count("with_more_than_one_schedule", 1);
                }
                if p.has_loop() {
                    out.count("loop_programs_x_valuations", 1);
                }
            }
            out.count("programs", 1);
        }
    }
}
