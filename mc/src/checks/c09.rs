//! C09 — Acknowledged delivery: R-mode. Reference = table of stored messages {status, retry,
//! stale?}; every edge (ack, action, advance, tick, redo, clear) from every reference state
//! reachable within a depth is executed on the real engine (path replayed from scratch) and the
//! rows of the message collection plus the deliveries to the ack channel must equal the prediction.
use crate::report::*;
use crate::world::{Cfg, Session, scratch_path};
use acts::query::Query;
use serde_json::{Value, json};
use std::collections::{BTreeMap, BTreeSet, VecDeque};
use std::sync::{Arc, Mutex};

const WF: &str = "id: m9\nsteps:\n  - id: s1\n    acts:\n      - uses: acts.core.irq\n        key: a1\n";
const INTERVAL_S: i64 = 10;

#[derive(Clone, Debug, PartialEq, Eq, PartialOrd, Ord, Hash)]
pub enum Op {
    Ack(usize),
    Action(usize),
    /// an action on the open act that the engine refuses (`error` without a code): nothing may change
    Refused(usize),
    AdvSmall,
    AdvBig,
    Tick,
    Redo,
    Clear(Option<usize>),
}

#[derive(Clone, Debug, PartialEq, Eq, PartialOrd, Ord, Hash)]
struct Row {
    /// slot: 0,1 = created message of process 1,2; 2,3 = completed message of process 1,2
    status: u8, // 0 created 1 acked 2 completed 3 error
    retry: i32,
    stale: bool,
}

#[derive(Clone, Debug, PartialEq, Eq, PartialOrd, Ord, Hash, Default)]
struct Ref {
    rows: BTreeMap<usize, Row>,
    acted: [bool; 2],
}

fn slot_pid(slot: usize) -> usize {
    slot % 2
}

/// reference transition: returns the new state and the predicted (slot, retry) redeliveries
fn step_ref(s: &Ref, op: &Op, max_retry: i32) -> (Ref, Vec<(usize, i32)>, Vec<usize>) {
    let mut t = s.clone();
    let mut redeliver = vec![];
    let mut first = vec![];
    match op {
        Op::Ack(k) => {
            if let Some(r) = t.rows.get_mut(k) {
                r.status = 1;
            }
        }
        Op::Refused(_) => {}
        Op::Action(p) => {
            if !t.acted[*p] {
                t.acted[*p] = true;
                // every stored message of the task is closed
                if let Some(r) = t.rows.get_mut(p) {
                    r.status = 2;
                }
                // the act's completed message is delivered for the first time and stored
                t.rows.insert(2 + p, Row {
                    status: 0,
                    retry: 0,
                    stale: true,
                });
                first.push(2 + p);
                // ... and closed by the same action only if it was stored before the status update;
                // the engine stores it when it is dispatched, i.e. after the action returned
            }
        }
        Op::AdvSmall => {}
        Op::AdvBig => {
            for r in t.rows.values_mut() {
                if r.status == 0 {
                    r.stale = true;
                }
            }
        }
        Op::Tick => {
            for (k, r) in t.rows.iter_mut() {
                if r.status == 0 && r.stale {
                    if r.retry < max_retry {
                        r.retry += 1;
                        r.stale = false;
                        redeliver.push((*k, r.retry));
                    } else {
                        r.status = 3;
                    }
                }
            }
        }
        Op::Redo => {
            for r in t.rows.values_mut() {
                if r.status == 3 {
                    r.status = 0;
                    r.retry = 0;
                    r.stale = false;
                }
            }
        }
        Op::Clear(p) => {
            let del: Vec<usize> = t
                .rows
                .iter()
                .filter(|(k, r)| r.status == 3 && p.map(|p| slot_pid(**k) == p).unwrap_or(true))
                .map(|(k, _)| *k)
                .collect();
            for k in del {
                t.rows.remove(&k);
            }
        }
    }
    (t, redeliver, first)
}

fn ops_of(s: &Ref) -> Vec<Op> {
    let mut v = vec![];
    for k in s.rows.keys() {
        v.push(Op::Ack(*k));
    }
    for p in 0..2 {
        if !s.acted[p] {
            v.push(Op::Action(p));
        }
    }
    // on the first process only (keeps the state graph small): a refused action
    if !s.acted[0] {
        v.push(Op::Refused(0));
    }
    v.push(Op::AdvSmall);
    v.push(Op::AdvBig);
    v.push(Op::Tick);
    v.push(Op::Redo);
    v.push(Op::Clear(None));
    v.push(Op::Clear(Some(0)));
    v.push(Op::Clear(Some(1)));
    v
}

struct Impl {
    sess: Session,
    /// (message id, retry_times, was in the store with status created when the handler ran)
    deliveries: Arc<Mutex<Vec<(String, i32, bool, String)>>>,
    /// slot -> message id
    ids: BTreeMap<usize, String>,
    tids: [String; 2],
}

fn new_impl(backend: &str, max_retry: i32, keep: bool) -> Impl {
    let cfg = Cfg {
        keep,
        sqlite: if backend == "sqlite" { Some(scratch_path("db")) } else { None },
        tick_secs: Some(INTERVAL_S),
        max_retry: Some(max_retry),
        ..Default::default()
    };
    let mut sess = Session::new(&cfg);
    sess.deploy(WF);
    let deliveries: Arc<Mutex<Vec<(String, i32, bool, String)>>> = Arc::new(Mutex::new(vec![]));
    let chan = sess.engine.channel_with_options(&acts::ChannelOptions {
        id: "ack1".into(),
        ack: true,
        r#type: "act".into(),
        ..Default::default()
    });
    let d = deliveries.clone();
    let eng = sess.engine.clone();
    chan.on_message(move |e| {
        // store-before-handler: the handler itself looks the message up
        let row = eng.executor().msg().get(&e.id).ok();
        let stored = row.is_some();
        let content = format!("{}|{}|{}|{}|{:?}|{}", e.pid, e.tid, e.key, e.r#type, e.state, e.inputs);
        d.lock().unwrap().push((e.id.clone(), e.retry_times, stored, content));
    });
    // a bystander channel whose key pattern selects no message of these runs: it must stay silent,
    // also when unacknowledged messages are sent again
    let bystander = sess.engine.channel_with_options(&acts::ChannelOptions {
        id: "bystander".into(),
        key: "no-such-key*".into(),
        ..Default::default()
    });
    let d2 = deliveries.clone();
    bystander.on_message(move |e| {
        d2.lock().unwrap().push((format!("BYSTANDER:{}", e.id), e.retry_times, true, format!("{}|{}|{}|{}|{:?}", e.pid, e.tid, e.key, e.r#type, e.state)));
    });
    for p in ["p1", "p2"] {
        let _ = sess.start("m9", &crate::checks::common::vars_of(&json!({"pid": p})));
    }
    sess.drain();
    let mut ids = BTreeMap::new();
    let mut tids = [String::new(), String::new()];
    for (id, _, _, content) in deliveries.lock().unwrap().iter() {
        if id.starts_with("BYSTANDER:") {
            continue;
        }
        let p = if content.starts_with("p1|") { 0 } else { 1 };
        ids.insert(p, id.clone());
        tids[p] = content.split('|').nth(1).unwrap_or("").to_string();
    }
    Impl {
        sess,
        deliveries,
        ids,
        tids,
    }
}

fn apply(im: &mut Impl, op: &Op) {
    match op {
        Op::Ack(k) => {
            if let Some(id) = im.ids.get(k).cloned() {
                let _ = im.sess.client(&format!("ack {k}"), move |e| e.executor().msg().ack(&id));
            }
        }
        Op::Action(p) => {
            let pid = ["p1", "p2"][*p];
            let tid = im.tids[*p].clone();
            let _ = im.sess.act("complete", pid, &tid, &acts::Vars::new());
        }
        Op::Refused(p) => {
            let pid = ["p1", "p2"][*p];
            let tid = im.tids[*p].clone();
            let _ = im.sess.act("error", pid, &tid, &acts::Vars::new());
        }
        Op::AdvSmall => im.sess.w.advance_ms(1),
        Op::AdvBig => im.sess.w.advance_ms(INTERVAL_S * 1000 + 1),
        Op::Tick => im.sess.tick(),
        Op::Redo => {
            let _ = im.sess.client("redo", |e| e.executor().msg().redo());
        }
        Op::Clear(p) => {
            let pid = p.map(|p| ["p1", "p2"][p].to_string());
            let _ = im.sess.client(&format!("clear {pid:?}"), move |e| e.executor().msg().clear(pid));
        }
    }
    im.sess.drain();
    // learn the ids of first deliveries
    let d = im.deliveries.lock().unwrap().clone();
    for (id, retry, _, content) in d.iter() {
        if id.starts_with("BYSTANDER:") {
            continue;
        }
        if *retry == 0 && !im.ids.values().any(|x| x == id) {
            let p = if content.starts_with("p1|") { 0 } else { 1 };
            let slot = if content.contains("Created") { p } else { 2 + p };
            im.ids.insert(slot, id.clone());
        }
    }
}

/// observable state of the implementation: slot -> (status, retry)
fn observe(im: &Impl) -> BTreeMap<usize, (u8, i32)> {
    let mut m = BTreeMap::new();
    let rows = im.sess.engine.verif().messages().query(&Query::new()).map(|p| p.rows).unwrap_or_default();
    for r in rows {
        let slot = im.ids.iter().find(|(_, id)| **id == r.id).map(|(k, _)| *k).unwrap_or(99);
        let st: i8 = r.status.into();
        m.insert(slot, (st as u8, r.retry_times));
    }
    m
}

pub struct C09;

/// `shard` of `of`: every shard walks the whole reference graph (cheap) and executes its share of the
/// edges on the real engine (expensive)
fn explore(backend: &'static str, max_retry: i32, depth: usize, keep: bool, shard: u64, of: u64, out: &mut ItemOut) {
    let scen = format!("ack/{backend}{}/max{max_retry}/depth{depth}", if keep { "+keep" } else { "" });
    let mut seen: BTreeSet<Ref> = BTreeSet::new();
    let mut queue: VecDeque<(Ref, Vec<Op>)> = VecDeque::new();
    let init = {
        let mut r = Ref::default();
        for k in 0..2 {
            r.rows.insert(k, Row {
                status: 0,
                retry: 0,
                stale: true,
            });
        }
        r
    };
    seen.insert(init.clone());
    queue.push_back((init, vec![]));
    let mut viols: BTreeMap<String, (String, Vec<Op>)> = BTreeMap::new();
    let mut edges = 0i64;
    let mut sample_done = false;
    while let Some((s, path)) = queue.pop_front() {
        if path.len() >= depth {
            continue;
        }
        for op in ops_of(&s) {
            let (t, redeliver, first) = step_ref(&s, &op, max_retry);
            let mut full = path.clone();
            full.push(op.clone());
            if crate::explore::fnv(&format!("{full:?}")) % of != shard {
                if seen.insert(t.clone()) {
                    queue.push_back((t, full));
                }
                continue;
            }
            // execute path + op on a fresh engine
            let mut im = new_impl(backend, max_retry, keep);
            // initial deliveries: stored before the handler ran?
            for (id, retry, stored, _) in im.deliveries.lock().unwrap().iter() {
                if *retry == 0 && !stored {
                    viols.entry("not-stored-before-handler".into()).or_insert((format!("message {id} was handed to the acknowledging channel before it was recorded in the store"), vec![]));
                }
            }
            let mut cur = Ref {
                rows: [(0, Row { status: 0, retry: 0, stale: true }), (1, Row { status: 0, retry: 0, stale: true })].into_iter().collect(),
                acted: [false, false],
            };
            for o in &path {
                apply(&mut im, o);
                cur = step_ref(&cur, o, max_retry).0;
            }
            debug_assert_eq!(cur, s);
            let before = im.deliveries.lock().unwrap().len();
            apply(&mut im, &op);
            edges += 1;
            // conformance: rows
            let obs = observe(&im);
            let exp: BTreeMap<usize, (u8, i32)> = t.rows.iter().map(|(k, r)| (*k, (r.status, r.retry))).collect();
            if obs != exp {
                let class = classify(&s, &op, &obs, &exp);
                viols.entry(class).or_insert((
                    format!("after {full:?}: message rows (slot -> status, retry) are {obs:?}, expected {exp:?}"),
                    full.clone(),
                ));
            }
            // conformance: deliveries of this edge
            let dl: Vec<(String, i32, bool, String)> = im.deliveries.lock().unwrap()[before..].to_vec();
            let mut got: Vec<(usize, i32)> = vec![];
            for (id, retry, stored, _content) in &dl {
                if id.starts_with("BYSTANDER:") {
                    viols.entry("delivered-to-non-matching-channel".into()).or_insert((
                        format!("after {full:?}: the message {} (retry {retry}) was handed to a channel whose key pattern does not select it", &id[10..]),
                        full.clone(),
                    ));
                    continue;
                }
                let slot = im.ids.iter().find(|(_, x)| *x == id).map(|(k, _)| *k).unwrap_or(99);
                if *retry == 0 {
                    if !first.contains(&slot) {
                        viols.entry("unexpected-first-delivery".into()).or_insert((format!("after {full:?}: message of slot {slot} delivered with retry 0"), full.clone()));
                    }
                    if !stored {
                        viols.entry("not-stored-before-handler".into()).or_insert((format!("after {full:?}: message {id} reached the handler before it was stored"), full.clone()));
                    }
                } else {
                    got.push((slot, *retry));
                }
            }
            got.sort();
            let mut want = redeliver.clone();
            want.sort();
            if got != want {
                let class = if got.len() > want.len() {
                    let extra: Vec<&(usize, i32)> = got.iter().filter(|g| !want.contains(g)).collect();
                    let st = extra.first().and_then(|(k, _)| s.rows.get(k)).map(|r| r.status).unwrap_or(9);
                    format!("redelivered/{}", ["created-not-stale", "acked", "completed", "error", "", "", "", "", "", "unknown"][if st == 0 { 0 } else { st as usize }])
                } else {
                    "not-redelivered".to_string()
                };
                viols.entry(class).or_insert((
                    format!("after {full:?}: redeliveries (slot, retry) {got:?}, expected {want:?}"),
                    full.clone(),
                ));
            }
            // same id and content on redelivery
            for (id, retry, _, content) in &dl {
                if *retry > 0 {
                    let all = im.deliveries.lock().unwrap().clone();
                    if let Some((_, _, _, c0)) = all.iter().find(|(i, r, _, _)| i == id && *r == 0) {
                        if c0 != content {
                            viols.entry("redelivered-content-differs".into()).or_insert((format!("after {full:?}: message {id} was redelivered with different content"), full.clone()));
                        }
                    }
                }
            }
            if !sample_done && matches!(op, Op::Tick) && path.len() == 2 {
                sample_done = true;
                out.samples.push(json!({"scenario": scen, "path": format!("{full:?}"), "reference_state_after": format!("{t:?}"),
                    "implementation_rows_after": format!("{obs:?}"), "redeliveries": format!("{got:?}")}));
            }
            if seen.insert(t.clone()) {
                queue.push_back((t, full));
            }
        }
    }
    if shard == 0 {
        out.count("states", seen.len() as i64);
        out.count("distinct_nontrivial", seen.len() as i64);
    }
    out.count("edges", edges);
    out.count("evaluations", edges);
    out.executions += edges as u64;
    out.transitions += edges as u64;
    for s in &seen {
        out.add_state(&scen, &format!("{s:?}"));
    }
    for (sig, (what, path)) in viols {
        out.violations.push(Violation {
            property: "C09".into(),
            sig: sig.clone(),
            scenario: scen.clone(),
            detail: String::new(),
            what: what.clone(),
            replay: json!({"property": "C09", "signature": sig, "scenario": scen, "what": what, "operations": format!("{path:?}"),
                "model": WF, "config": {"tick_interval_secs": INTERVAL_S, "max_message_retry_times": max_retry, "store": backend}}),
        });
    }
}

/// Process events (start, complete, error) and messages on an acknowledging channel that subscribes
/// with all four handler kinds: every delivery is recorded in the store before its handler runs,
/// and an event acknowledged (inside its handler, or after it) is never delivered again.
fn events_part(backend: &'static str, ack_inside: bool, out: &mut ItemOut) {
    let scen = format!("events/{backend}/{}", if ack_inside { "ack-inside-handler" } else { "ack-after-handler" });
    let cfg = Cfg {
        keep: true,
        sqlite: if backend == "sqlite" { Some(scratch_path("db")) } else { None },
        tick_secs: Some(INTERVAL_S),
        max_retry: Some(3),
        ..Default::default()
    };
    let mut sess = Session::new(&cfg);
    sess.deploy(WF);
    // (handler kind, id, retry, stored before the handler ran)
    let seen: Arc<Mutex<Vec<(&'static str, String, i32, bool)>>> = Arc::new(Mutex::new(vec![]));
    let chan = sess.engine.channel_with_options(&acts::ChannelOptions {
        id: "ack-all".into(),
        ack: true,
        ..Default::default()
    });
    macro_rules! sub {
        ($m:ident, $kind:expr) => {{
            let d = seen.clone();
            let eng = sess.engine.clone();
            chan.$m(move |e| {
                let stored = eng.executor().msg().get(&e.id).is_ok();
                d.lock().unwrap().push(($kind, e.id.clone(), e.retry_times, stored));
                if ack_inside {
                    let _ = eng.executor().msg().ack(&e.id);
                }
            });
        }};
    }
    sub!(on_message, "message");
    sub!(on_start, "start");
    sub!(on_complete, "complete");
    sub!(on_error, "error");
    for p in ["p1", "p2"] {
        let _ = sess.start("m9", &crate::checks::common::vars_of(&json!({"pid": p})));
    }
    sess.drain();
    // p1 completes, p2 fails
    for (pid, kind, opts) in [("p1", "complete", json!({})), ("p2", "error", json!({"ecode": "e1", "message": "failed"}))] {
        if let Some(tid) = sess.tid_of_key(pid, "a1") {
            let _ = sess.act(kind, pid, &tid, &crate::checks::common::vars_of(&opts));
        }
        sess.drain();
    }
    if !ack_inside {
        let ids: Vec<String> = seen.lock().unwrap().iter().map(|x| x.1.clone()).collect();
        for id in ids {
            let _ = sess.client("ack", move |e| e.executor().msg().ack(&id));
        }
        sess.drain();
    }
    let first = seen.lock().unwrap().len();
    for _ in 0..2 {
        sess.w.advance_ms(INTERVAL_S * 1000 + 1);
        sess.tick();
        sess.drain();
    }
    let all = seen.lock().unwrap().clone();
    let mut viols: BTreeMap<String, String> = BTreeMap::new();
    let kinds: BTreeSet<&str> = all.iter().map(|x| x.0).collect();
    for k in ["message", "start", "complete", "error"] {
        if !kinds.contains(k) {
            viols.insert(format!("events/no-{k}-delivery"), format!("the acknowledging channel never received a {k} delivery (vacuous scenario)"));
        }
    }
    for (kind, id, retry, stored) in &all {
        if *retry == 0 && !stored {
            viols.entry(format!("not-stored-before-handler/{kind}")).or_insert(format!("the {kind} delivery {id} reached its handler before it was recorded in the store"));
        }
    }
    for (kind, id, retry, _) in &all[first.min(all.len())..] {
        viols.entry(format!("redelivered/acked-{}", all.iter().find(|x| x.1 == *id).map(|x| x.0).unwrap_or("unknown"))).or_insert(format!(
            "the acknowledged delivery {id} was delivered again (to the {kind} handler, retry {retry})"
        ));
    }
    out.executions += 1;
    out.transitions += all.len() as u64;
    out.count("event_deliveries", all.len() as i64);
    out.count("edges", all.len() as i64);
    for (sig, what) in viols {
        out.violations.push(Violation {
            property: "C09".into(),
            sig: sig.clone(),
            scenario: scen.clone(),
            detail: String::new(),
            what: what.clone(),
            replay: json!({"property": "C09", "signature": sig, "scenario": scen, "what": what, "model": WF,
                "operations": "start p1, p2; complete p1; error p2; acknowledge every delivery; advance past the interval and tick, twice", "deliveries": format!("{all:?}")}),
        });
    }
}

fn classify(s: &Ref, op: &Op, obs: &BTreeMap<usize, (u8, i32)>, exp: &BTreeMap<usize, (u8, i32)>) -> String {
    let names = ["created", "acked", "completed", "error"];
    let opn = match op {
        Op::Ack(_) => "ack",
        Op::Action(_) => "action",
        Op::Refused(_) => "refused-action",
        Op::AdvSmall | Op::AdvBig => "advance",
        Op::Tick => "tick",
        Op::Redo => "redo",
        Op::Clear(None) => "clear",
        Op::Clear(Some(_)) => "clear-pid",
    };
    for (k, e) in exp {
        match obs.get(k) {
            None => {
                return format!("{opn}/deleted/{}", names[s.rows.get(k).map(|r| r.status).unwrap_or(0) as usize % 4]);
            }
            Some(o) if o != e => {
                if o.0 != e.0 {
                    return format!("{opn}/status/{}->{}-not-{}", names[s.rows.get(k).map(|r| r.status).unwrap_or(0) as usize % 4], names[o.0 as usize % 4], names[e.0 as usize % 4]);
                }
                return format!("{opn}/retry");
            }
            _ => {}
        }
    }
    format!("{opn}/extra-row")
}

impl Check for C09 {
    fn info(&self, tier: Tier) -> CheckInfo {
        CheckInfo {
            id: "C09",
            level: "model_checking",
            rule: "two processes of a one-interrupt workflow, an acknowledging channel on type=act; reference state = per stored message {status, retry, stale} + which acts were answered; breadth-first over every reference state reachable within the depth, every edge {ack(m), complete(act), an action the engine refuses, advance(1ms | interval+1ms), tick, redo, clear(None|p1|p2)} executed on a fresh real engine by replaying the path, then rows of the message collection and the deliveries (id, retry_times, content, stored-before-handler) compared with the prediction; max_message_retry_times in {1,2,3}; both stores".into(),
            assumptions: vec![
                "virtual clock; the tick is the explicit operation the timer would issue; engine work is drained FIFO after every operation".into(),
                "ack of a message that is not in status created is accepted as the code does (status acked); only silence is required of it".into(),
            ],
            budget_s: tier.pick(50, 900),
            exhaustive_when_uncapped: true,
            bounds: json!({"depth": tier.pick(5, 7), "processes": 2, "max_retry": [1, 2, 3]}),
        }
    }
    fn items(&self, tier: Tier) -> Vec<Value> {
        let mut v = vec![];
        for backend in ["memory", "sqlite"] {
            for inside in [true, false] {
                let scn = format!("events/{backend}/{}", if inside { "ack-inside-handler" } else { "ack-after-handler" });
                v.push(json!({"id": scn, "scenario": scn, "backend": backend, "events_ack_inside": inside}));
            }
        }
        for backend in ["memory", "sqlite"] {
            for max in [1, 2, 3] {
                let depth = match (tier, backend) {
                    (Tier::Quick, "memory") => 5,
                    (Tier::Quick, _) => 4,
                    (Tier::Thorough, "memory") => 7,
                    (Tier::Thorough, _) => 6,
                };
                // finished processes stay cached with keep_processes; without it the cache runs empty
                for keep in [false, true] {
                    if keep && backend == "sqlite" && tier == Tier::Quick {
                        continue;
                    }
                    let of = tier.pick(2u64, 12);
                    for shard in 0..of {
                        let scn = format!("ack/{backend}{}/max{max}/depth{depth}", if keep { "+keep" } else { "" });
                        v.push(json!({"id": format!("{scn}#{shard}"), "scenario": scn, "backend": backend, "max": max, "depth": depth, "keep": keep, "shard": shard, "of": of}));
                    }
                }
            }
        }
        v
    }
    fn run_item(&self, _tier: Tier, item: &Value, out: &mut ItemOut) {
        let backend: &'static str = if item["backend"] == "sqlite" { "sqlite" } else { "memory" };
        if let Some(inside) = item.get("events_ack_inside").and_then(|x| x.as_bool()) {
            events_part(backend, inside, out);
            return;
        }
        explore(
            backend,
            item["max"].as_i64().unwrap() as i32,
            item["depth"].as_u64().unwrap() as usize,
            item["keep"].as_bool().unwrap_or(true),
            item["shard"].as_u64().unwrap_or(0),
            item["of"].as_u64().unwrap_or(1).max(1),
            out,
        );
    }
}
