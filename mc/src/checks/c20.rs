//! C20 — Models survive serialisation; deployment and tree building are faithful.
//! Bounded-exhaustive enumeration of models: every structural shape up to a node budget, and a
//! skeleton holding every node kind with every optional field toggled singly and in pairs.
use crate::report::*;
use crate::world::{Cfg, Session};
use acts::Workflow;
use acts::query::Query;
use serde_json::{Value, json};
use std::collections::BTreeMap;

/// structural shapes: workflow := step{1..3}; step := leaf | acts{1..2} | branches{2} (body: none | step | step with act)
fn shapes(max_nodes: usize) -> Vec<Value> {
    #[derive(Clone)]
    enum S {
        Leaf,
        Acts(usize),
        Branches(Vec<u8>),
        /// branches and acts in one step
        Both(Vec<u8>, usize),
    }
    let mut step_kinds: Vec<S> = vec![S::Leaf, S::Acts(1), S::Acts(2)];
    for a in 0..3u8 {
        for b in 0..3u8 {
            step_kinds.push(S::Branches(vec![a, b]));
        }
    }
    step_kinds.push(S::Both(vec![0, 0], 1));
    step_kinds.push(S::Both(vec![1, 0], 2));
    let nodes = |s: &S| match s {
        S::Leaf => 1,
        S::Acts(n) => 1 + n,
        S::Branches(bs) => 1 + bs.iter().map(|b| 1 + *b as usize).sum::<usize>(),
        S::Both(bs, n) => 1 + n + bs.iter().map(|b| 1 + *b as usize).sum::<usize>(),
    };
    let mut out = vec![];
    let mut seqs: Vec<Vec<S>> = vec![vec![]];
    for _ in 0..3 {
        let mut next = vec![];
        for q in &seqs {
            for k in &step_kinds {
                let mut r = q.clone();
                r.push(k.clone());
                if r.iter().map(nodes).sum::<usize>() < max_nodes {
                    next.push(r);
                }
            }
        }
        for q in &next {
            let mut steps = vec![];
            let mut n = 0;
            let mut id = |p: &str| {
                n += 1;
                format!("{p}{n}")
            };
            for k in q {
                let sid = id("s");
                let mut st = json!({"id": sid});
                match k {
                    S::Leaf => {}
                    S::Acts(c) => {
                        st["acts"] = json!((0..*c).map(|i| json!({"id": id("a"), "uses": if i == 0 { "acts.core.irq" } else { "acts.core.msg" }, "key": format!("k{i}")})).collect::<Vec<_>>());
                    }
                    S::Branches(bs) | S::Both(bs, _) => {
                        if let S::Both(_, c) = k {
                            st["acts"] = json!((0..*c).map(|i| json!({"id": id("a"), "uses": "acts.core.irq", "key": format!("k{i}")})).collect::<Vec<_>>());
                        }
                        let mut brs = vec![];
                        for (bi, b) in bs.iter().enumerate() {
                            let mut br = json!({"id": id("b")});
                            if bi == 0 {
                                br["if"] = json!("a > 0");
                            } else {
                                br["else"] = json!(true);
                            }
                            if *b >= 1 {
                                let mut body = json!({"id": id("s")});
                                if *b == 2 {
                                    body["acts"] = json!([{"id": id("a"), "uses": "acts.core.irq"}]);
                                }
                                br["steps"] = json!([body]);
                            }
                            brs.push(br);
                        }
                        st["branches"] = json!(brs);
                    }
                }
                steps.push(st);
            }
            out.push(json!({"id": "shape", "steps": steps}));
        }
        seqs = next;
    }
    out
}

/// a skeleton with every node kind and nesting; all ids explicit
fn skeleton() -> Value {
    json!({
        "id": "sk",
        "steps": [
            {"id": "s1", "acts": [
                {"id": "a1", "uses": "acts.core.irq", "key": "k1"},
                {"id": "a2", "uses": "acts.core.msg", "key": "k2"}
            ]},
            {"id": "s2", "branches": [
                {"id": "b1", "if": "a > 0", "steps": [{"id": "s21", "acts": [{"id": "a3", "uses": "acts.core.irq"}]}]},
                {"id": "b2", "else": true, "steps": [{"id": "s22"}]}
            ]},
            {"id": "s3"}
        ]
    })
}

/// (json pointer of the node, field, value): every optional field of every node kind
fn toggles() -> Vec<(String, &'static str, Value)> {
    let mut t: Vec<(String, &'static str, Value)> = vec![];
    let vars = json!({"n": null, "b": true, "i": -7, "big": 3000000000i64, "f": 0.5, "s": "é✓ text", "arr": [1, "x", null], "obj": {"k": {"m": 1}}});
    let setup_act = json!({"id": "su", "uses": "acts.transform.set", "params": {"v": 1}});
    let hook_act = json!({"id": "hk", "uses": "acts.core.msg", "key": "hook", "on": "completed"});
    let catch = json!([{"on": "e1", "steps": [{"id": "c1", "acts": [{"id": "ca", "uses": "acts.core.msg"}]}]}, {"steps": [{"id": "c2"}]}]);
    let timeout = json!([{"on": "2h", "steps": [{"id": "t1"}]}, {"on": "30s", "steps": [{"id": "t2", "acts": [{"id": "ta", "uses": "acts.core.msg"}]}]}]);
    // workflow
    for (f, v) in [
        ("name", json!("名前 name")),
        ("desc", json!("a description\nwith two lines")),
        ("tag", json!("tag-✓")),
        ("ver", json!(7)),
        ("env", json!({"e1": 5, "e2": "x"})),
        ("inputs", vars.clone()),
        ("outputs", json!({"o1": null, "o2": "{{ i }}"})),
        ("setup", json!([setup_act, hook_act])),
        ("on", json!([{"id": "ev1", "uses": "acts.event.manual"}, {"id": "ev2", "uses": "acts.event.hook", "params": {"x": 1}}])),
    ] {
        t.push(("".into(), f, v));
    }
    // steps (a step with acts, a step with branches, a leaf step, a nested step)
    for p in ["/steps/0", "/steps/1", "/steps/2", "/steps/1/branches/0/steps/0"] {
        for (f, v) in [
            ("name", json!("step ✓")),
            ("desc", json!("d")),
            ("tag", json!("t")),
            ("inputs", vars.clone()),
            ("outputs", json!({"so": null})),
            ("if", json!("i < 0")),
            ("setup", json!([{"id": format!("su{}", p.len()), "uses": "acts.core.msg", "on": "created"}])),
            ("catches", catch.clone()),
            ("timeout", timeout.clone()),
        ] {
            t.push((p.into(), f, v));
        }
    }
    t.push(("/steps/2".into(), "next", json!("s1")));
    // branches
    for p in ["/steps/1/branches/0", "/steps/1/branches/1"] {
        for (f, v) in [
            ("name", json!("branch")),
            ("desc", json!("d")),
            ("tag", json!("bt")),
            ("inputs", vars.clone()),
            ("outputs", json!({"bo": 1})),
            ("run", json!("console.log('x')")),
            ("next", json!("s3x")),
        ] {
            t.push((p.into(), f, v));
        }
    }
    t.push(("/steps/1/branches/1".into(), "needs", json!(["b1"])));
    // acts
    for (pi, p) in ["/steps/0/acts/0", "/steps/0/acts/1", "/steps/1/branches/0/steps/0/acts/0"].into_iter().enumerate() {
        for (f, v) in [
            ("name", json!("act ✓")),
            ("desc", json!("d")),
            ("tag", json!("at")),
            ("key", json!("key-é")),
            ("params", json!({"p": [1, {"q": "{{ s }}"}], "r": null})),
            ("options", json!({"opt": true})),
            ("if", json!("b")),
            ("inputs", vars.clone()),
            ("outputs", json!({"ao": null})),
            ("setup", json!([{"id": format!("asu{}", pi), "uses": "acts.core.msg", "on": "updated"}])),
            ("catches", json!([{"on": "e9", "steps": [{"id": format!("ac{}", pi)}]}])),
            ("timeout", json!([{"on": "1d", "steps": [{"id": format!("at{}", pi)}]}])),
        ] {
            t.push((p.into(), f, v));
        }
    }
    t
}

fn apply(model: &mut Value, toggle: &(String, &'static str, Value)) {
    if let Some(node) = model.pointer_mut(&toggle.0) {
        node[toggle.1] = toggle.2.clone();
    }
}

/// (level, kind, id) of the normal-flow nodes in declaration order, computed from the model alone
fn expected_tree(m: &Value) -> Vec<(usize, String, String)> {
    fn step(s: &Value, level: usize, out: &mut Vec<(usize, String, String)>) {
        out.push((level, "step".into(), s["id"].as_str().unwrap_or("").into()));
        // a step that jumps (next) has no branches in the tree
        if s.get("next").map(|n| n.is_null()).unwrap_or(true) {
            for b in s["branches"].as_array().cloned().unwrap_or_default() {
                out.push((level + 1, "branch".into(), b["id"].as_str().unwrap_or("").into()));
                for st in b["steps"].as_array().cloned().unwrap_or_default() {
                    step(&st, level + 2, out);
                }
            }
        }
        for a in s["acts"].as_array().cloned().unwrap_or_default() {
            out.push((level + 1, "act".into(), a["id"].as_str().unwrap_or("").into()));
        }
    }
    let mut out = vec![(0, "workflow".to_string(), m["id"].as_str().unwrap_or("").to_string())];
    for s in m["steps"].as_array().cloned().unwrap_or_default() {
        step(&s, 1, &mut out);
    }
    out
}

fn parse_tree(text: &str) -> Vec<(usize, String, String)> {
    let mut v = vec![];
    for line in text.lines() {
        if line.trim().is_empty() {
            continue;
        }
        let chars: Vec<char> = line.chars().collect();
        // every level below the root is drawn with a prefix of 4 characters
        let mut i = 0;
        let mut level = 0;
        while i + 4 <= chars.len() {
            let unit: String = chars[i..i + 4].iter().collect();
            if unit == "│   " || unit == "    " || unit == "├── " || unit == "└── " {
                level += 1;
                i += 4;
            } else {
                break;
            }
        }
        let rest: String = chars[i..].iter().collect();
        let mut it = rest.split_whitespace();
        let kind = it.next().unwrap_or("").to_string();
        let id = it.next().unwrap_or("").trim_start_matches("id:").to_string();
        v.push((level, kind, id));
    }
    v
}

struct Ctx {
    sess: Session,
    n: usize,
    viols: BTreeMap<String, String>,
}

fn check_model(c: &mut Ctx, m: &Value, label: &str, out: &mut ItemOut) {
    out.count("evaluations", 1);
    out.count("models", 1);
    c.n += 1;
    let mut m = m.clone();
    let mid = format!("m{}", c.n);
    m["id"] = json!(mid);
    let wf: Workflow = match serde_json::from_value(m.clone()) {
        Ok(w) => w,
        Err(e) => {
            c.viols.entry("parse/from-json".into()).or_insert(format!("{label}: the model does not parse: {e}: {m}"));
            return;
        }
    };
    let base = serde_json::to_value(&wf).unwrap();
    // serialisation round trips
    match wf.to_yml().and_then(|y| Workflow::from_yml(&y)) {
        Ok(w2) => {
            let v2 = serde_json::to_value(&w2).unwrap();
            if let Some(at) = subset(&m, &v2, String::new()) {
                let _ = &base;
                c.viols.entry(format!("roundtrip/yaml/{at}")).or_insert(format!("{label}: YAML round trip loses or changes {at} of the given model"));
            }
        }
        Err(e) => {
            c.viols.entry("roundtrip/yaml/error".into()).or_insert(format!("{label}: YAML round trip fails: {e}"));
        }
    }
    match wf.to_json().and_then(|y| Workflow::from_json(&y)) {
        Ok(w2) => {
            let v2 = serde_json::to_value(&w2).unwrap();
            if let Some(at) = subset(&m, &v2, String::new()) {
                c.viols.entry(format!("roundtrip/json/{at}")).or_insert(format!("{label}: JSON round trip loses or changes {at} of the given model"));
            }
        }
        Err(e) => {
            c.viols.entry("roundtrip/json/error".into()).or_insert(format!("{label}: JSON round trip fails: {e}"));
        }
    }
    // deploy four times: stored model == given, version counts the deploys, one event per `on`
    let ex = c.sess.engine.executor();
    let mut last_on = m["on"].clone();
    for k in 1..=4 {
        // the model changes between deploys: name and tag of the second and fourth deploy differ
        let mut wf = wf.clone();
        let mut m = m.clone();
        if k % 2 == 0 {
            wf.name = format!("名 v{k}");
            wf.tag = format!("tag{k}");
            m["name"] = json!(wf.name);
            m["tag"] = json!(wf.tag);
        }
        if k >= 3 {
            // the third and fourth deploy declare one more start event, after the ones known already
            let mut on = m["on"].as_array().cloned().unwrap_or_default();
            on.push(json!({"id": "late-ev", "uses": "acts.event.manual"}));
            m["on"] = json!(on);
            match serde_json::from_value::<Workflow>(m.clone()) {
                Ok(mut w3) => {
                    w3.name = wf.name.clone();
                    w3.tag = wf.tag.clone();
                    wf = w3;
                }
                Err(e) => panic!("machinery: model with a late event does not parse: {e}"),
            }
            last_on = m["on"].clone();
        }
        if let Err(e) = ex.model().deploy(&wf) {
            c.viols.entry("deploy/rejected".into()).or_insert(format!("{label}: deploy of a valid model fails: {e}"));
            return;
        }
        match c.sess.engine.verif().models().find(&mid) {
            Ok(row) => {
                if row.name != wf.name || row.id != mid {
                    c.viols.entry("deploy/row-name".into()).or_insert(format!("{label}: after deploy {k} the model row says name '{}' but the deployed model is named '{}'", row.name, wf.name));
                }
                if row.size as usize != row.data.len() {
                    c.viols.entry("deploy/row-size".into()).or_insert(format!("{label}: the model row says size {} but its text has {} bytes", row.size, row.data.len()));
                }
                if row.ver != k {
                    c.viols.entry("deploy/version".into()).or_insert(format!("{label}: after {k} deploys the stored version is {}", row.ver));
                }
                match Workflow::from_yml(&row.data) {
                    Ok(w2) => {
                        let v2 = serde_json::to_value(&w2).unwrap();
                        if let Some(at) = subset(&m, &v2, String::new()) {
                            c.viols.entry(format!("deploy/stored-model/{at}")).or_insert(format!("{label}: the stored model loses or changes {at} of the given one"));
                        }
                    }
                    Err(e) => {
                        c.viols.entry("deploy/stored-model/unparsable".into()).or_insert(format!("{label}: the stored model text does not parse: {e}"));
                    }
                }
            }
            Err(e) => {
                c.viols.entry("deploy/not-stored".into()).or_insert(format!("{label}: the model row is missing after deploy: {e}"));
            }
        }
    }
    let evs: Vec<String> = c
        .sess
        .engine
        .verif()
        .events()
        .query(&Query::new())
        .map(|p| p.rows.iter().filter(|e| e.mid == mid).map(|e| e.id.clone()).collect())
        .unwrap_or_default();
    let want: Vec<String> = last_on.as_array().cloned().unwrap_or_default().iter().map(|a| format!("{mid}:{}", a["id"].as_str().unwrap_or(""))).collect();
    let (mut a, mut b) = (evs.clone(), want.clone());
    a.sort();
    b.sort();
    if a != b {
        c.viols.entry("deploy/events".into()).or_insert(format!("{label}: start events {evs:?}, expected {want:?}"));
    }
    // the tree
    match ex.model().get(&mid, "tree") {
        Ok(info) => {
            let got = parse_tree(&info.data);
            let exp = expected_tree(&m);
            if got != exp {
                let i = got.iter().zip(exp.iter()).position(|(x, y)| x != y).unwrap_or(got.len().min(exp.len()));
                c.viols.entry("tree/nodes".into()).or_insert(format!(
                    "{label}: the tree differs from the model at node {i}: tree {:?}, model {:?} (tree has {} nodes, model {})",
                    got.get(i),
                    exp.get(i),
                    got.len(),
                    exp.len()
                ));
            }
        }
        Err(e) => {
            c.viols.entry("tree/error".into()).or_insert(format!("{label}: tree output fails: {e}"));
        }
    }
}

/// every field the given model sets must come back with the same value (the oracle is the given
/// JSON, not the engine's own serialisation of it); returns the first differing path (array
/// indices left out, so that the path is a class)
fn subset(given: &Value, got: &Value, path: String) -> Option<String> {
    match (given, got) {
        (Value::Object(x), Value::Object(y)) => {
            for (k, p) in x {
                match y.get(k) {
                    Some(q) => {
                        if let Some(at) = subset(p, q, format!("{path}.{k}")) {
                            return Some(at);
                        }
                    }
                    None => return Some(format!("{path}.{k}")),
                }
            }
            None
        }
        (Value::Array(x), Value::Array(y)) => {
            if x.len() != y.len() {
                return Some(path);
            }
            for (p, q) in x.iter().zip(y.iter()) {
                if let Some(at) = subset(p, q, path.clone()) {
                    return Some(at);
                }
            }
            None
        }
        (Value::Number(a), Value::Number(b)) => if a.as_f64() == b.as_f64() { None } else { Some(path) },
        _ => if given == got { None } else { Some(path) },
    }
}

#[allow(dead_code)]
fn diff_field(a: &Value, b: &Value) -> String {
    fn walk(a: &Value, b: &Value, path: String) -> Option<String> {
        match (a, b) {
            (Value::Object(x), Value::Object(y)) => {
                for k in x.keys().chain(y.keys()) {
                    let (p, q) = (x.get(k).unwrap_or(&Value::Null), y.get(k).unwrap_or(&Value::Null));
                    if p != q {
                        // the path without array indices is the class
                        return walk(p, q, format!("{path}.{k}"));
                    }
                }
                None
            }
            (Value::Array(x), Value::Array(y)) => {
                if x.len() != y.len() {
                    return Some(path);
                }
                for (p, q) in x.iter().zip(y.iter()) {
                    if p != q {
                        return walk(p, q, path.clone());
                    }
                }
                None
            }
            _ => Some(path),
        }
    }
    walk(a, b, String::new()).unwrap_or_default()
}

fn id_paths(m: &Value) -> Vec<String> {
    // json pointers of every node that carries an id (normal flow)
    fn step(s: &Value, p: String, out: &mut Vec<String>) {
        out.push(p.clone());
        for (i, b) in s["branches"].as_array().cloned().unwrap_or_default().iter().enumerate() {
            let bp = format!("{p}/branches/{i}");
            out.push(bp.clone());
            for (j, st) in b["steps"].as_array().cloned().unwrap_or_default().iter().enumerate() {
                step(st, format!("{bp}/steps/{j}"), out);
            }
        }
        for (i, _) in s["acts"].as_array().cloned().unwrap_or_default().iter().enumerate() {
            out.push(format!("{p}/acts/{i}"));
        }
    }
    let mut out = vec![];
    for (i, s) in m["steps"].as_array().cloned().unwrap_or_default().iter().enumerate() {
        step(s, format!("/steps/{i}"), &mut out);
    }
    out
}

pub struct C20;

impl Check for C20 {
    fn info(&self, tier: Tier) -> CheckInfo {
        CheckInfo {
            id: "C20",
            level: "exploration",
            rule: "models: every structural shape `step{1..3}`, step := leaf | acts{1..2} | two branches (if / else) with body none | step | step with act, up to the node budget; a skeleton with every node kind and nesting with each of ~100 optional-field toggles (names and text with unicode, vars of every JSON type, if / next / needs / else / run, setup and hook acts, nested catches and timeouts, events, ver) applied singly and in pairs; generated ids (ids left empty); for each model: YAML and JSON round trips compared as values, four deploys (stored text == given, version = number of deploys, one event row per `on`), tree text compared with an independently computed (level, kind, id) list; duplicate ids injected at every pair of nodes must be rejected; starting an unknown model must fail. A model is non-trivial when it has at least one toggle or more than one node".into(),
            assumptions: vec!["catch and timeout bodies are not rendered in the tree text (covered by C06 / C19)".into()],
            budget_s: tier.pick(50, 600),
            exhaustive_when_uncapped: true,
            bounds: json!({"shape_nodes": tier.pick(7, 10), "toggle_combinations": tier.pick("singles and pairs (pairs strided by 3)", "singles and all pairs")}),
        }
    }
    fn items(&self, tier: Tier) -> Vec<Value> {
        let nt = toggles().len();
        let mut v = vec![json!({"id": "shapes", "kind": "shapes", "max_nodes": tier.pick(7, 10)}), json!({"id": "singles+duplicates", "kind": "singles"})];
        for i in 0..nt {
            v.push(json!({"id": format!("pairs/{i}"), "scenario": "pairs", "kind": "pairs", "first": i}));
        }
        v
    }
    fn run_item(&self, tier: Tier, item: &Value, out: &mut ItemOut) {
        let mut c = Ctx {
            sess: Session::new(&Cfg::default()),
            n: 0,
            viols: BTreeMap::new(),
        };
        let t = toggles();
        match item["kind"].as_str().unwrap() {
            "shapes" => {
                let sh = shapes(item["max_nodes"].as_u64().unwrap() as usize);
                for (i, m) in sh.iter().enumerate() {
                    check_model(&mut c, m, &format!("shape {i}"), out);
                    out.count("distinct_nontrivial", 1);
                }
                // the same shapes with generated ids (ids left empty)
                for (i, m) in sh.iter().enumerate().step_by(5) {
                    let mut g = m.clone();
                    for p in id_paths(&g) {
                        if let Some(n) = g.pointer_mut(&p) {
                            n.as_object_mut().unwrap().remove("id");
                        }
                    }
                    // ids are generated at load time: only the round trips and the deploy are judged
                    let wf: Result<Workflow, _> = serde_json::from_value(g.clone());
                    if let Ok(mut wf) = wf {
                        wf.id = format!("gen{i}");
                        out.count("evaluations", 1);
                        if c.sess.engine.executor().model().deploy(&wf).is_err() {
                            c.viols.entry("deploy/rejected-generated-ids".into()).or_insert(format!("shape {i} without explicit ids is rejected"));
                        }
                        let tree = c.sess.engine.executor().model().get(&wf.id, "tree").map(|m| parse_tree(&m.data)).unwrap_or_default();
                        let exp = expected_tree(m);
                        let shape_of = |v: &Vec<(usize, String, String)>| v.iter().map(|(l, k, _)| (*l, k.clone())).collect::<Vec<_>>();
                        let mut ids: Vec<&String> = tree.iter().map(|(_, _, i)| i).collect();
                        ids.sort();
                        let dup = ids.windows(2).any(|w| w[0] == w[1]);
                        if shape_of(&tree) != shape_of(&exp) || dup {
                            c.viols.entry("tree/generated-ids".into()).or_insert(format!("shape {i} with generated ids: tree {tree:?}"));
                        }
                    }
                }
                out.samples.push(json!({"shape": sh.get(40), "expected_tree": sh.get(40).map(expected_tree)}));
                // an unknown model cannot be started
                if c.sess.start("no-such-model", &acts::Vars::new()).is_ok() {
                    c.viols.entry("start/unknown-model".into()).or_insert("starting an unknown model succeeded".into());
                }
            }
            "singles" => {
                check_model(&mut c, &skeleton(), "skeleton", out);
                for (i, tg) in t.iter().enumerate() {
                    let mut m = skeleton();
                    apply(&mut m, tg);
                    check_model(&mut c, &m, &format!("toggle {i} {}{}", tg.0, tg.1), out);
                    out.count("distinct_nontrivial", 1);
                }
                // duplicate ids at every pair of nodes
                let paths = id_paths(&skeleton());
                for i in 0..paths.len() {
                    for j in (i + 1)..paths.len() {
                        let mut m = skeleton();
                        let id = m.pointer(&paths[i]).unwrap()["id"].clone();
                        m.pointer_mut(&paths[j]).unwrap()["id"] = id.clone();
                        m["id"] = json!(format!("dup{i}x{j}"));
                        out.count("evaluations", 1);
                        out.count("duplicate_id_models", 1);
                        if let Ok(wf) = serde_json::from_value::<Workflow>(m.clone()) {
                            if c.sess.engine.executor().model().deploy(&wf).is_ok() {
                                c.viols.entry("deploy/duplicate-id-accepted".into()).or_insert(format!("a model in which {} and {} share the id {id} was deployed", paths[i], paths[j]));
                            }
                        }
                    }
                }
                out.samples.push(json!({"skeleton": skeleton(), "toggle": {"node": t[20].0, "field": t[20].1, "value": t[20].2}}));
            }
            _ => {
                let i = item["first"].as_u64().unwrap() as usize;
                let stride = if tier == Tier::Quick { 3 } else { 1 };
                for j in ((i + 1)..t.len()).step_by(stride) {
                    if t[i].0 == t[j].0 && t[i].1 == t[j].1 {
                        continue;
                    }
                    let mut m = skeleton();
                    apply(&mut m, &t[i]);
                    apply(&mut m, &t[j]);
                    // two toggles may introduce the same auxiliary id (catch / timeout step ids): skip those
                    let s = m.to_string();
                    if ["\"c1\"", "\"t1\"", "\"c2\"", "\"t2\"", "\"ca\"", "\"ta\""].iter().any(|k| s.matches(k).count() > 1) {
                        continue;
                    }
                    check_model(&mut c, &m, &format!("toggles {i}+{j}"), out);
                    out.count("distinct_nontrivial", 1);
                }
            }
        }
        out.executions += c.n as u64;
        let scen = item["kind"].as_str().unwrap().to_string();
        for (sig, what) in c.viols {
            out.violations.push(Violation {
                property: "C20".into(),
                sig: sig.clone(),
                scenario: scen.clone(),
                detail: String::new(),
                what: what.clone(),
                replay: json!({"property": "C20", "signature": sig, "what": what}),
            });
        }
    }
}
