//! C01 — Progress: a quiescent, unfinished process is always waiting on a client.
use super::common::*;
use crate::explore::Chooser;
use crate::wgen::{BranchProg, branch_programs, valuations};
use crate::report::*;
use crate::world::Tr;
use serde_json::json;

pub struct C01;

#[derive(Clone)]
pub struct Case {
    pub id: String,
    pub yml: String,
    pub a: i64,
    pub b: i64,
    pub cap: u64,
    pub bound: Option<usize>,
}

pub fn cases(tier: Tier) -> Vec<Case> {
    let mut v = vec![];
    let mut add = |n: usize, p: &BranchProg, cap: u64, bound: Option<usize>| {
        for (a, b) in valuations(p) {
            v.push(Case {
                id: format!("F_prog/{n}/{}/a={a},b={b}", p.name()),
                yml: p.yml("m1"),
                a,
                b,
                cap,
                bound,
            });
        }
    };
    for p in branch_programs(2) {
        add(2, &p, 200_000, None);
    }
    for p in branch_programs(3) {
        match tier {
            Tier::Quick => {
                // three branches with at most two non-empty bodies and at most one interrupt: exhaustive
                if p.nonempty_bodies() <= 2 && p.irq_bodies() <= 1 {
                    add(3, &p, 20_000, None);
                }
            }
            Tier::Thorough => {
                if p.irq_bodies() <= 2 {
                    add(3, &p, 400_000, None);
                } else {
                    add(3, &p, 400_000, Some(4));
                }
            }
        }
    }
    v
}

/// the progress oracle, applied at every quiescent point and at the end
pub fn judge_progress(e: &Exec) -> Vec<(String, String)> {
    let mut v = vec![];
    if e.scheduler_dead {
        v.push((
            "scheduler-dead".to_string(),
            format!("the scheduler task panicked ({:?}); queued work can never run", e.panics),
        ));
    }
    let n = e.points.len();
    for (i, q) in e.points.iter().enumerate() {
        if !q.quiescent {
            continue;
        }
        let last = i + 1 == n;
        for pid in &e.pids {
            // only processes whose start was accepted
            let started = e.trace[..q.at]
                .iter()
                .any(|t| matches!(t, Tr::ProcEvent { pid: p, .. } if p == pid));
            if !started {
                continue;
            }
            if !e.terminal_events(pid, q.at).is_empty() {
                continue;
            }
            let view = match q.views.get(pid).and_then(|x| x.as_ref()) {
                Some(d) => d,
                None => {
                    v.push((
                        "vanished".into(),
                        format!("process {pid} is gone from the engine without a terminal event"),
                    ));
                    continue;
                }
            };
            let answerable = view
                .tasks
                .iter()
                .any(|t| t.kind == "act" && t.uses == "acts.core.irq" && t.state == "interrupted");
            let has_child = view
                .tasks
                .iter()
                .any(|t| t.kind == "act" && t.uses == "acts.core.subflow" && t.state == "running");
            if answerable || has_child {
                if last && e.arun.horizon_hit {
                    continue;
                }
                if last {
                    // nothing is enabled although an interrupt is open: the client never learnt of it
                    let open: Vec<String> = view
                        .tasks
                        .iter()
                        .filter(|t| t.state == "interrupted")
                        .map(|t| format!("{}:{}", t.nid, t.tid))
                        .collect();
                    if !has_child {
                        v.push((
                            "stranded/unannounced-interrupt".into(),
                            format!("process {pid} waits on {open:?} but no created message told a client"),
                        ));
                    }
                }
                continue;
            }
            let mut open: Vec<String> = view
                .tasks
                .iter()
                .filter(|t| !crate::amode::is_terminal_state(&t.state))
                .map(|t| format!("{}:{}", t.kind, t.state))
                .collect();
            open.sort();
            open.dedup();
            let detail: Vec<String> = view
                .tasks
                .iter()
                .filter(|t| !crate::amode::is_terminal_state(&t.state))
                .map(|t| format!("{} {} {}", t.kind, t.nid, t.state))
                .collect();
            v.push((
                format!("stranded/{}", open.join("+")),
                format!(
                    "quiescent with no terminal event and nothing a client can answer: process {pid} state {}, open tasks {detail:?}",
                    view.state
                ),
            ));
        }
    }
    v.sort();
    v.dedup_by(|a, b| a.0 == b.0);
    v
}

pub fn run_case(ch: &mut Chooser, c: &Case, want_log: bool) -> RunObs {
    let scn = Scn::new(&c.id, &c.yml, "m1", json!({"a": c.a, "b": c.b, "pid": "p1"}));
    let mut pol = complete_any_policy();
    let e = run_scn(ch, &scn, false, &mut pol);
    let viols = judge_progress(&e);
    let outcome = e.outcome_class();
    e.to_obs(viols, outcome, want_log)
}

impl Check for C01 {
    fn info(&self, tier: Tier) -> CheckInfo {
        CheckInfo {
            id: "C01",
            level: "model_checking",
            rule: "every workflow `s0; s1{2..3 branches}; s2` with branch kind in {if a>0, if b>0, else, needs:[an if-sibling]} x body in {none, step, step+irq}, every declaration order, every valuation of the used variables; per case every order of queued-task executions, launches and client `complete` answers (A-mode DFS by re-execution of the real engine); a case is non-trivial when at least two activities were enabled at once".into(),
            assumptions: vec![
                "activities (one scheduler-loop iteration, one client call, one launch) are atomic in this check; preemption inside them is covered by the T-mode checks".into(),
                "message dispatch to log-only handlers commutes with everything and is run eagerly".into(),
            ],
            budget_s: tier.pick(50, 1500),
            exhaustive_when_uncapped: true,
            bounds: json!({"branches": tier.pick("2, and 3 with <=2 bodies and <=1 interrupt", "2 and 3 (deviation bound 4 when 3 interrupts are open)"), "horizon": 400}),
        }
    }
    fn items(&self, tier: Tier) -> Vec<serde_json::Value> {
        cases(tier).into_iter().enumerate().map(|(i, c)| json!({"id": c.id, "idx": i})).collect()
    }
    fn run_item(&self, tier: Tier, item: &serde_json::Value, out: &mut ItemOut) {
        let idx = item["idx"].as_u64().unwrap() as usize;
        let c = cases(tier).swap_remove(idx);
        let scn_desc = json!({"model": c.yml, "vars": {"a": c.a, "b": c.b}, "policy": "complete-any-open-irq"});
        let st = explore_scenario(out, "C01", &c.id, &scn_desc, c.bound, c.cap, idx % 97 == 0, &|ch, log| {
            run_case(ch, &c, log)
        });
        if st.max_width > 1 {
            out.count("distinct_nontrivial", 1);
        }
    }
}
