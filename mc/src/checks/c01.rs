//! C01 — Progress: a quiescent, unfinished process is always waiting on a client.
use super::common::*;
use crate::explore::Chooser;
use crate::wgen::{BranchProg, branch_programs, valuations};
use crate::report::*;
use crate::world::Tr;
use serde_json::json;

pub struct C01;

#[derive(Clone)]
pub struct Case {
    pub id: String,
    pub yml: String,
    pub a: i64,
    pub b: i64,
    pub cap: u64,
    pub bound: Option<usize>,
}

pub fn cases(tier: Tier) -> Vec<Case> {
    let mut v = vec![];
    let mut add = |n: usize, p: &BranchProg, cap: u64, bound: Option<usize>| {
        for (a, b) in valuations(p) {
            v.push(Case {
                id: format!("F_prog/{n}/{}/a={a},b={b}", p.name()),
                yml: p.yml("m1"),
                a,
                b,
                cap,
                bound,
            });
        }
    };
    for p in branch_programs(2) {
        add(2, &p, 200_000, None);
    }
    for p in branch_programs(3) {
        match tier {
            Tier::Quick => {
                // three branches with at most two non-empty bodies and at most one interrupt: exhaustive
                if p.nonempty_bodies() <= 2 && p.irq_bodies() <= 1 {
                    add(3, &p, 20_000, None);
                }
            }
            Tier::Thorough => {
                if p.irq_bodies() <= 2 {
                    add(3, &p, 400_000, None);
                } else {
                    add(3, &p, 400_000, Some(4));
                }
            }
        }
    }
    v
}

/// the progress oracle, applied at every quiescent point and at the end
pub fn judge_progress(e: &Exec) -> Vec<(String, String)> {
    judge_progress_with(e, true)
}

/// `client_answers_everything`: the run ends only when the client has nothing left to answer, so an
/// interrupt that is still open at the end was never announced
pub fn judge_progress_with(e: &Exec, client_answers_everything: bool) -> Vec<(String, String)> {
    let mut v = vec![];
    if e.scheduler_dead {
        v.push((
            "scheduler-dead".to_string(),
            format!("the scheduler task panicked ({:?}); queued work can never run", e.panics),
        ));
    }
    let n = e.points.len();
    for (i, q) in e.points.iter().enumerate() {
        if !q.quiescent {
            continue;
        }
        let last = i + 1 == n;
        for pid in &e.pids {
            // only processes whose start was accepted
            let started = e.trace[..q.at]
                .iter()
                .any(|t| matches!(t, Tr::ProcEvent { pid: p, .. } if p == pid));
            if !started {
                continue;
            }
            if !e.terminal_events(pid, q.at).is_empty() {
                continue;
            }
            let view = match q.views.get(pid).and_then(|x| x.as_ref()) {
                Some(d) => d,
                None => {
                    v.push((
                        "vanished".into(),
                        format!("process {pid} is gone from the engine without a terminal event"),
                    ));
                    continue;
                }
            };
            let answerable = view
                .tasks
                .iter()
                .any(|t| t.kind == "act" && t.uses == "acts.core.irq" && t.state == "interrupted");
            let has_child = view
                .tasks
                .iter()
                .any(|t| t.kind == "act" && t.uses == "acts.core.subflow" && t.state == "running");
            if answerable || has_child {
                if last && e.arun.horizon_hit {
                    continue;
                }
                if last && client_answers_everything {
                    // nothing is enabled although an interrupt is open: the client never learnt of it
                    let open: Vec<String> = view
                        .tasks
                        .iter()
                        .filter(|t| t.state == "interrupted")
                        .map(|t| format!("{}:{}", t.nid, t.tid))
                        .collect();
                    if !has_child {
                        v.push((
                            "stranded/unannounced-interrupt".into(),
                            format!("process {pid} waits on {open:?} but no created message told a client"),
                        ));
                    }
                }
                continue;
            }
            let mut open: Vec<String> = view
                .tasks
                .iter()
                .filter(|t| !crate::amode::is_terminal_state(&t.state))
                .map(|t| format!("{}:{}", t.kind, t.state))
                .collect();
            open.sort();
            open.dedup();
            let detail: Vec<String> = view
                .tasks
                .iter()
                .filter(|t| !crate::amode::is_terminal_state(&t.state))
                .map(|t| format!("{} {} {}", t.kind, t.nid, t.state))
                .collect();
            v.push((
                format!("stranded/{}", open.join("+")),
                format!(
                    "quiescent with no terminal event and nothing a client can answer: process {pid} state {}, open tasks {detail:?}",
                    view.state
                ),
            ));
        }
    }
    v.sort();
    v.dedup_by(|a, b| a.0 == b.0);
    v
}

pub fn run_case(ch: &mut Chooser, c: &Case, want_log: bool) -> RunObs {
    let scn = Scn::new(&c.id, &c.yml, "m1", json!({"a": c.a, "b": c.b, "pid": "p1"}));
    let mut pol = complete_any_policy();
    let e = run_scn(ch, &scn, false, &mut pol);
    let viols = judge_progress(&e);
    let outcome = e.outcome_class();
    e.to_obs(viols, outcome, want_log)
}

impl Check for C01 {
    fn info(&self, tier: Tier) -> CheckInfo {
        CheckInfo {
            id: "C01",
            level: "model_checking",
            rule: "every workflow `s0; s1{2..3 branches}; s2` with branch kind in {if a>0, if b>0, else, needs:[an if-sibling]} x body in {none, step, step+irq}, every declaration order, every valuation of the used variables; per case every order of queued-task executions, launches and client `complete` answers (A-mode DFS by re-execution of the real engine); a case is non-trivial when at least two activities were enabled at once".into(),
            assumptions: vec![
                "activities (one scheduler-loop iteration, one client call, one launch) are atomic in this check; preemption inside them is covered by the T-mode checks".into(),
                "message dispatch to log-only handlers commutes with everything and is run eagerly".into(),
            ],
            budget_s: tier.pick(50, 1500),
            exhaustive_when_uncapped: true,
            bounds: json!({"branches": tier.pick("2, and 3 with <=2 bodies and <=1 interrupt", "2 and 3 (deviation bound 4 when 3 interrupts are open)"), "horizon": 400}),
        }
    }
    fn items(&self, tier: Tier) -> Vec<serde_json::Value> {
        let mut v: Vec<serde_json::Value> = cases(tier).into_iter().enumerate().map(|(i, c)| json!({"id": c.id, "idx": i})).collect();
        // client answers other than `complete`, also racing in-flight work
        for (si, h) in hist_scenarios(tier).iter().enumerate() {
            let (singles, roots) = crate::explore::split_frontier(h.bound, h.shards, |ch| {
                run_hist(ch, h, false);
            });
            for (k, p) in singles.iter().enumerate() {
                v.push(json!({"id": format!("{}#s{}", h.scn.id, k), "scenario": h.scn.id, "hist": si, "prefix": p, "single": true}));
            }
            for (k, p) in roots.iter().enumerate() {
                v.push(json!({"id": format!("{}#{}", h.scn.id, k), "scenario": h.scn.id, "hist": si, "prefix": p, "single": false}));
            }
        }
        v
    }
    fn run_item(&self, tier: Tier, item: &serde_json::Value, out: &mut ItemOut) {
        if let Some(si) = item.get("hist").and_then(|x| x.as_u64()) {
            let h = hist_scenarios(tier).swap_remove(si as usize);
            let prefix: Vec<u32> = item["prefix"].as_array().unwrap().iter().map(|x| x.as_u64().unwrap() as u32).collect();
            let single = item["single"].as_bool().unwrap();
            let desc = json!({"scenario": h.scn.desc(), "history_length": h.cfg.max_ops, "actions": h.cfg.actions.iter().map(|a| a.0).collect::<Vec<_>>()});
            explore_scenario_from(out, "C01", &h.scn.id, &desc, h.bound, h.cap, prefix.is_empty(), &prefix, single, spill_after(), &|ch, log| {
                run_hist(ch, &h, log)
            });
            out.count("distinct_nontrivial", 1);
            return;
        }
        let idx = item["idx"].as_u64().unwrap() as usize;
        let c = cases(tier).swap_remove(idx);
        let scn_desc = json!({"model": c.yml, "vars": {"a": c.a, "b": c.b}, "policy": "complete-any-open-irq"});
        let st = explore_scenario(out, "C01", &c.id, &scn_desc, c.bound, c.cap, idx % 97 == 0, &|ch, log| {
            run_case(ch, &c, log)
        });
        if st.max_width > 1 {
            out.count("distinct_nontrivial", 1);
        }
    }
}

use super::hist::{HistCfg, history_name, run_history};
use super::histchecks::{HScn, W2B, hscn_pub};
use crate::wgen::{W2, W4};

/// histories of other answers (submit, skip, remove, abort, error) on workflows with two open regions
pub fn hist_scenarios(tier: Tier) -> Vec<HScn> {
    let acts = vec![
        ("complete", vec![json!({})]),
        ("submit", vec![json!({})]),
        ("skip", vec![json!({})]),
        ("remove", vec![json!({})]),
        ("abort", vec![json!({})]),
        ("error", vec![json!({"ecode": "e1"})]),
    ];
    let mut v = vec![];
    for y in [W2, W2B, W4] {
        let c = HistCfg {
            max_ops: tier.pick(2, 3),
            actions: acts.clone(),
            odd_targets: false,
            terminal_targets: false,
            back: false,
            push: false,
        };
        v.push(hscn_pub("answers", y, false, c, Some(1), 32));
    }
    v
}

pub fn run_hist(ch: &mut Chooser, h: &HScn, want_log: bool) -> RunObs {
    let hx = run_history(ch, &h.scn, &h.cfg);
    let mut viols = judge_progress_with(&hx.e, false);
    for p in &hx.e.panics {
        if p.starts_with("client") {
            viols.push(("client-panic".into(), format!("the API call {p} panicked")));
        }
    }
    let outcome = format!("{}|{}", history_name(&hx.ops), hx.e.outcome_class());
    let mut o = hx.e.to_obs(viols, outcome, want_log);
    o.detail = hx.ops.iter().map(|o| format!("{}({})@{}{}", o.spec.kind, o.spec.nid, o.spec.target_class, if o.quiescent { "" } else { "!" })).collect::<Vec<_>>().join(",");
    o
}
