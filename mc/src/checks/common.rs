//! Shared scenario runner for the A-mode checks: one execution -> `Exec` (trace, quiescent
//! snapshots, client results), judged afterwards by pure monitor functions.
use crate::amode::{ARun, Op, digest, run_amode, trace_log};
use crate::explore::Chooser;
use crate::report::RunObs;
use crate::world::{Cfg, Session, Tr};
use acts::Vars;
use acts::verif::ProcDump;
use serde_json::{Value, json};
use std::collections::BTreeMap;

#[derive(Clone, Debug)]
pub struct Scn {
    pub id: String,
    pub models: Vec<String>,
    /// (model id, start vars incl. pid)
    pub starts: Vec<(String, Value)>,
    pub cfg: Cfg,
    /// dump policy of the trace (world::DUMP_*)
    pub want_dumps: u8,
    /// quiescent snapshots carry full dumps (data, hooks, env)
    pub full_views: bool,
    /// quiescent snapshots also carry the rows of the store
    pub capture_store: bool,
    pub horizon: usize,
    /// steps taken before the exploration begins: ("complete", key of an open interrupt) or ("tick", milliseconds
    /// the virtual clock advances before one timer tick); the engine is drained after each
    pub prelude: Vec<(String, String)>,
}

impl Scn {
    pub fn new(id: impl Into<String>, model: &str, mid: &str, vars: Value) -> Scn {
        Scn {
            id: id.into(),
            models: vec![model.to_string()],
            starts: vec![(mid.to_string(), vars)],
            cfg: Cfg::default(),
            want_dumps: crate::world::DUMP_NONE,
            full_views: false,
            capture_store: false,
            horizon: 400,
            prelude: vec![],
        }
    }
    pub fn desc(&self) -> Value {
        json!({"id": self.id, "models": self.models, "starts": self.starts, "config": self.cfg.to_json(), "prelude": self.prelude})
    }
    pub fn pids(&self) -> Vec<String> {
        self.starts
            .iter()
            .filter_map(|(_, v)| v.get("pid").and_then(|p| p.as_str()).map(|s| s.to_string()))
            .collect()
    }
}

pub fn vars_of(v: &Value) -> Vars {
    let mut vars = Vars::new();
    if let Some(m) = v.as_object() {
        for (k, x) in m {
            vars.set(k, x.clone());
        }
    }
    vars
}

#[derive(Clone, Debug)]
pub struct QPoint {
    /// trace length when the snapshot was taken
    pub at: usize,
    pub views: BTreeMap<String, Option<ProcDump>>,
    pub quiescent: bool,
    /// rows of the store at this point (only when the scenario asks for them): pid -> (proc row, task rows)
    pub stored: Option<BTreeMap<String, (Option<Value>, Vec<Value>)>>,
}

/// the proc row and the task rows of a process as the store has them
pub fn stored_rows(s: &Session, pid: &str) -> (Option<Value>, Vec<Value>) {
    use acts::query::{Cond, Expr, Query};
    let h = s.engine.verif();
    let proc = h.procs().find(pid).ok().map(|p| serde_json::to_value(&p).unwrap());
    let q = Query::new().push(Cond::and().push(Expr::eq("pid", pid.to_string())));
    let mut tasks: Vec<Value> = h
        .tasks()
        .query(&q)
        .map(|p| p.rows.iter().map(|t| serde_json::to_value(t).unwrap()).collect())
        .unwrap_or_default();
    tasks.sort_by_key(|t| t["tid"].as_str().unwrap_or("").to_string());
    (proc, tasks)
}

pub struct Exec {
    pub trace: Vec<Tr>,
    pub points: Vec<QPoint>,
    pub results: Vec<(String, Result<(), String>)>,
    pub panics: Vec<String>,
    pub scheduler_dead: bool,
    pub arun: ARun,
    pub pids: Vec<String>,
    pub machinery: Vec<String>,
    pub delivered: Vec<crate::world::Delivered>,
}

/// run one execution of the scenario under the chooser
pub fn run_scn(
    ch: &mut Chooser,
    scn: &Scn,
    snapshot_every_boundary: bool,
    policy: &mut dyn FnMut(&Session) -> Vec<Op>,
) -> Exec {
    run_scn_with(ch, scn, snapshot_every_boundary, policy, &mut |_| {})
}

pub fn run_scn_with(
    ch: &mut Chooser,
    scn: &Scn,
    snapshot_every_boundary: bool,
    policy: &mut dyn FnMut(&Session) -> Vec<Op>,
    setup: &mut dyn FnMut(&mut Session),
) -> Exec {
    let mut sess = Session::new(&scn.cfg);
    sess.w.want_dumps.store(scn.want_dumps, std::sync::atomic::Ordering::Relaxed);
    for m in &scn.models {
        sess.deploy(m);
    }
    setup(&mut sess);
    for (mid, vars) in &scn.starts {
        let _ = sess.start(mid, &vars_of(vars));
    }
    let pids = scn.pids();
    let mut points: Vec<QPoint> = vec![];
    let arun = {
        let pids = pids.clone();
        let full_views = scn.full_views;
        let capture_store = scn.capture_store;
        let mut observe = |s: &mut Session, quiescent: bool| {
            if quiescent || snapshot_every_boundary {
                let mut views = BTreeMap::new();
                for p in &pids {
                    views.insert(p.clone(), if full_views { s.dump(p) } else { s.dump_light(p) });
                }
                let stored = if capture_store && quiescent {
                    Some(pids.iter().map(|p| (p.clone(), stored_rows(s, p))).collect())
                } else {
                    None
                };
                points.push(QPoint {
                    at: s.w.trace_len(),
                    views,
                    quiescent,
                    stored,
                });
            }
        };
        run_amode(ch, &mut sess, scn.horizon, policy, &mut observe)
    };
    let trace = sess.w.trace_snapshot();
    let delivered = sess.delivered.lock().unwrap().clone();
    Exec {
        trace,
        points,
        results: sess.results.clone(),
        panics: sess.panics.clone(),
        scheduler_dead: sess.scheduler_dead,
        arun,
        pids,
        machinery: sess.machinery_errors(),
        delivered,
    }
}

impl Exec {
    pub fn to_obs(&self, viols: Vec<(String, String)>, outcome: String, want_log: bool) -> RunObs {
        let log = trace_log(&self.trace);
        let d = digest(&log, &format!("{:?}{:?}", self.panics, self.results));
        RunObs {
            digest: d,
            states: self.arun.states.clone(),
            outcome,
            viols,
            detail: String::new(),
            log: if want_log { log } else { vec![] },
            machinery: self.machinery.clone(),
        }
    }
    pub fn terminal_events(&self, pid: &str, upto: usize) -> Vec<(&'static str, acts::Message)> {
        crate::amode::terminal_events(&self.trace[..upto.min(self.trace.len())], pid)
    }
    /// final outcome class: per pid the terminal events and the final task states by node
    pub fn outcome_class(&self) -> String {
        let mut s = String::new();
        for p in &self.pids {
            let te = self.terminal_events(p, self.trace.len());
            s += &format!("{p}:");
            for (c, m) in te {
                s += &format!("{c}/{:?};", m.state);
            }
            let mut states: BTreeMap<String, Vec<String>> = BTreeMap::new();
            for t in &self.trace {
                if let Tr::TaskEvent { pid, tid, nid, state, .. } = t {
                    if pid == p {
                        states.insert(format!("{nid}#{tid}"), vec![state.clone()]);
                    }
                }
            }
            let mut by_nid: BTreeMap<String, Vec<String>> = BTreeMap::new();
            for (k, v) in states {
                by_nid.entry(k.split('#').next().unwrap().to_string()).or_default().extend(v);
            }
            for (k, mut v) in by_nid {
                v.sort();
                s += &format!("{k}={};", v.join(","));
            }
        }
        if !self.panics.is_empty() {
            s += &format!("panics={}", self.panics.len());
        }
        s
    }
}

/// policy: a client answers any open interrupt with `complete`, at any time
pub fn complete_any_policy() -> impl FnMut(&Session) -> Vec<Op> {
    |s: &Session| {
        s.open_irqs(None)
            .into_iter()
            .map(|m| Op::act("complete", &m.pid, &m.tid, Vars::new()))
            .collect()
    }
}
