//! C17 — Retention: what is left in the store after a process ended, under both settings of
//! keep_processes and both stores; model removal deletes exactly the model's events.
use super::common::vars_of;
use crate::amode::{digest, trace_log};
use crate::explore::Chooser;
use crate::report::*;
use crate::world::{Cfg, Session, Tr};
use acts::query::Query;
use serde_json::{Value, json};
use std::collections::{BTreeMap, BTreeSet};

const WR1: &str = "id: wr1\nsteps:\n  - id: s1\n    acts:\n      - uses: acts.core.irq\n        key: a1\n  - id: s2\n";
const WR2: &str = "id: wr2\nsteps:\n  - id: s1\n    branches:\n      - id: b1\n        if: \"true\"\n        steps:\n          - id: s11\n            acts:\n              - uses: acts.core.irq\n                key: a1\n      - id: b2\n        if: \"true\"\n        steps:\n          - id: s21\n            acts:\n              - uses: acts.core.irq\n                key: a2\n  - id: s2\n";

/// a lifecycle hook that runs after the process has ended (a task event after the terminal event)
const WR3: &str = "id: wr3\nsetup:\n  - uses: acts.core.msg\n    key: bye\n    on: completed\nsteps:\n  - id: s1\n    acts:\n      - uses: acts.core.irq\n        key: a1\n";

#[derive(Clone, Debug)]
pub struct Scn {
    pub id: String,
    pub keep: bool,
    pub sqlite: bool,
    /// model of process p1 / p2
    pub models: [&'static str; 2],
    /// (process index, action kind) in issue order
    pub script: Vec<(usize, &'static str)>,
    /// the process is dropped from the cache right after each client action on it, while the work
    /// that action queued is still in flight: it ends while it is not cached
    pub evict: bool,
}

pub fn scenarios(tier: Tier) -> Vec<Scn> {
    let mut v = vec![];
    let endings = ["complete", "abort", "skip", "error"];
    for keep in [false, true] {
        for sqlite in [false, true] {
            for (mi, models) in [[WR1, WR1], [WR2, WR1], [WR3, WR1]].into_iter().enumerate() {
                for e1 in endings {
                    for e2 in endings {
                        for first in 0..2usize {
                            if tier == Tier::Quick && sqlite && (e1 != e2 || first == 1) {
                                continue;
                            }
                            let second = 1 - first;
                            let script = vec![(first, if first == 0 { e1 } else { e2 }), (first, "complete"), (second, if second == 0 { e1 } else { e2 }), (second, "abort")];
                            v.push(Scn {
                                id: format!("retain/{}{}/m{mi}/{e1}+{e2}/first{}", if sqlite { "sqlite" } else { "memory" }, if keep { "+keep" } else { "" }, first + 1),
                                keep,
                                sqlite,
                                models,
                                script: script.clone(),
                                evict: false,
                            });
                            // sequential processes only: an eviction under concurrently open regions is the C13 finding
                            if mi == 0 && e1 == e2 && first == 0 {
                                v.push(Scn {
                                    id: format!("retain/{}{}/m{mi}/{e1}+{e2}/evicted-in-flight", if sqlite { "sqlite" } else { "memory" }, if keep { "+keep" } else { "" }),
                                    keep,
                                    sqlite,
                                    models,
                                    script,
                                    evict: true,
                                });
                            }
                        }
                    }
                }
            }
        }
    }
    v
}

#[derive(Clone, Default)]
struct Snap {
    procs: BTreeMap<String, Value>,
    tasks: BTreeMap<String, Value>,
    msgs: BTreeMap<String, Value>,
}

fn snap(s: &Session) -> Snap {
    let h = s.engine.verif();
    let mut x = Snap::default();
    for p in h.procs().query(&Query::new()).map(|p| p.rows).unwrap_or_default() {
        x.procs.insert(p.id.clone(), serde_json::to_value(&p).unwrap());
    }
    for t in h.tasks().query(&Query::new()).map(|p| p.rows).unwrap_or_default() {
        x.tasks.insert(t.id.clone(), serde_json::to_value(&t).unwrap());
    }
    for m in h.messages().query(&Query::new()).map(|p| p.rows).unwrap_or_default() {
        x.msgs.insert(m.id.clone(), serde_json::to_value(&m).unwrap());
    }
    x
}

pub fn run_one(ch: &mut Chooser, sc: &Scn, want_log: bool) -> RunObs {
    let cfg = Cfg {
        keep: sc.keep,
        sqlite: if sc.sqlite { Some("@scratch".into()) } else { None },
        ..Default::default()
    };
    let mut sess = Session::new(&cfg);
    sess.deploy(sc.models[0]);
    if sc.models[1] != sc.models[0] {
        sess.deploy(sc.models[1]);
    }
    // an acknowledging channel so that message rows exist
    let chan = sess.engine.channel_with_options(&acts::ChannelOptions {
        id: "ack".into(),
        ack: true,
        ..Default::default()
    });
    chan.on_message(|_| {});
    let pids = ["p1", "p2"];
    for (i, p) in pids.iter().enumerate() {
        let mid = sc.models[i].lines().next().unwrap().trim_start_matches("id:").trim().to_string();
        let _ = sess.start(&mid, &vars_of(&json!({"pid": p})));
    }
    let mut viols: Vec<(String, String)> = vec![];
    let mut push = |sig: String, what: String| {
        if !viols.iter().any(|(s, _)| *s == sig) {
            viols.push((sig, what));
        }
    };
    let mut act_tid: [Option<String>; 2] = [None, None];
    let mut ended: [bool; 2] = [false, false];
    let mut k = 0usize;
    let mut prev: Option<(Snap, usize, usize)> = None; // snapshot before the last op, its process, trace index
    let mut states = vec![];
    let mut steps = 0;
    loop {
        let acts = sess.enabled();
        if !acts.is_empty() {
            steps += 1;
            if steps > 400 {
                ch.horizon_hit = true;
                break;
            }
            let c = ch.choose(acts.len());
            ch.label(|| acts[c].label());
            sess.run(acts[c].seq);
            continue;
        }
        // quiescent
        let now = snap(&sess);
        states.push(crate::explore::fnv(&format!("{:?}{:?}", now.procs.keys().collect::<Vec<_>>(), now.tasks.iter().map(|(k, v)| format!("{k}{}", v["state"])).collect::<Vec<_>>())));
        for (i, p) in pids.iter().enumerate() {
            if act_tid[i].is_none() {
                act_tid[i] = sess.tid_of_key(p, "a1");
            }
        }
        if let Some((before, pi, from)) = prev.take() {
            let p = pids[pi];
            let q = pids[1 - pi];
            let trace = sess.w.trace_snapshot();
            let term: Vec<String> = trace[from..]
                .iter()
                .filter_map(|t| match t {
                    Tr::Emit { channel, msg } if (*channel == "complete" || *channel == "error") && msg.pid == p => Some(format!("{:?}", msg.state).to_lowercase()),
                    _ => None,
                })
                .collect();
            if !term.is_empty() {
                ended[pi] = true;
                let how = term[0].clone();
                let prow = now.procs.get(p);
                let trows: Vec<&Value> = now.tasks.values().filter(|t| t["pid"] == p).collect();
                if sc.keep {
                    match prow {
                        None => push(format!("keep/proc-row-gone/{how}"), format!("keep_processes: the row of {p} is gone after it ended {how}")),
                        Some(r) => {
                            if !crate::amode::is_terminal_state(r["state"].as_str().unwrap_or("")) {
                                push(format!("keep/proc-row-not-terminal/{how}"), format!("keep_processes: {p} ended {how} but its row says {}", r["state"]));
                            }
                        }
                    }
                    let before_n = before.tasks.values().filter(|t| t["pid"] == p).count();
                    if trows.len() < before_n {
                        push(format!("keep/task-rows-lost/{how}"), format!("keep_processes: {p} had {before_n} task rows, {} are left after it ended", trows.len()));
                    }
                    let open: Vec<String> = trows
                        .iter()
                        .filter(|t| !crate::amode::is_terminal_state(t["state"].as_str().unwrap_or("")) && !t["data"].as_str().unwrap_or("").contains("\"$is_event_processed\":true"))
                        .map(|t| format!("{} {}", t["kind"].as_str().unwrap_or(""), t["state"].as_str().unwrap_or("")))
                        .collect();
                    if !open.is_empty() && how != "error" {
                        push(format!("keep/task-rows-not-terminal/{how}"), format!("keep_processes: {p} ended {how} but task rows are not terminal: {open:?}"));
                    }
                } else {
                    if prow.is_some() {
                        push(format!("default/proc-row-left/{how}"), format!("{p} ended {how} but its process row is still in the store"));
                    }
                    if !trows.is_empty() {
                        push(format!("default/task-rows-left/{how}"), format!("{p} ended {how} but {} of its task rows are still in the store", trows.len()));
                    }
                }
            }
            // rows of the other process are untouched by this operation
            let rows_of = |s: &Snap| -> (Option<Value>, Vec<Value>) { (s.procs.get(q).cloned(), s.tasks.values().filter(|t| t["pid"] == q).cloned().collect()) };
            if rows_of(&before) != rows_of(&now) {
                push("other-process-rows-changed".into(), format!("an action on {p} changed or deleted rows of {q}"));
            }
            let lost: Vec<&String> = before.msgs.keys().filter(|id| !now.msgs.contains_key(*id)).collect();
            if !lost.is_empty() {
                push("message-rows-deleted".into(), format!("an action on {p} deleted {} message rows", lost.len()));
            }
        }
        if k >= sc.script.len() {
            break;
        }
        let (pi, kind) = sc.script[k];
        k += 1;
        let from = sess.w.trace_len();
        let tid = act_tid[pi].clone().unwrap_or_else(|| "missing".into());
        let opts = if kind == "error" { json!({"ecode": "e1"}) } else { json!({}) };
        let was_ended = ended[pi];
        ch.label(|| format!("client {kind} {}:{tid}", pids[pi]));
        let r = sess.act(kind, pids[pi], &tid, &vars_of(&opts));
        if sc.evict {
            sess.engine.verif().uncache(pids[pi]);
        }
        if was_ended && r.is_ok() {
            push(
                format!("acted-on-finished/{}/{kind}", if sc.keep { "keep" } else { "default" }),
                format!("{kind} on the act of the finished process {} was accepted", pids[pi]),
            );
        }
        if r.as_ref().err().map(|e| e == "PANIC").unwrap_or(false) {
            push(format!("panic/{kind}"), format!("{kind} on {} panicked", pids[pi]));
        }
        prev = Some((now, pi, from));
    }
    let trace = sess.w.trace_snapshot();
    let log = trace_log(&trace);
    let outcome = format!("{:?}", ended);
    RunObs {
        digest: digest(&log, &format!("{:?}", sess.results)),
        states,
        outcome,
        viols,
        detail: String::new(),
        log: if want_log { log } else { vec![] },
        machinery: sess.machinery_errors(),
    }
}

// ---- models and their start events ----------------------------------------------------------

/// model `i` in variant `v`: the variants differ in their start events (a redeploy can drop one)
fn events_of(i: usize, v: usize) -> Vec<String> {
    let n = match (i, v) {
        (0, 0) => 2,
        (0, _) => 1,
        (1, 0) => 1,
        (1, _) => 2,
        _ => 0,
    };
    (0..n).map(|e| format!("ev{e}")).collect()
}

fn model_yml(i: usize, v: usize) -> String {
    let events = events_of(i, v);
    let mut s = format!("id: em{i}\n");
    if !events.is_empty() {
        s += "on:\n";
        for e in &events {
            s += &format!("  - id: {e}\n    uses: acts.event.manual\n");
        }
    }
    s += "steps:\n  - id: s1\n";
    s
}

fn models_part(sqlite: bool, depth: usize, out: &mut ItemOut) {
    let scen = format!("models/{}", if sqlite { "sqlite" } else { "memory" });
    let mut viols: BTreeMap<String, String> = BTreeMap::new();
    let mut edges = 0i64;
    let mut seen: BTreeSet<String> = BTreeSet::new();
    // (deploy?, model, variant)
    let mut alphabet: Vec<(bool, usize, usize)> = vec![];
    for i in 0..3 {
        alphabet.push((true, i, 0));
        if i < 2 {
            alphabet.push((true, i, 1));
        }
        alphabet.push((false, i, 0));
    }
    let mut idx = vec![0usize; depth];
    'outer: loop {
        let cfg = Cfg {
            sqlite: if sqlite { Some("@scratch".into()) } else { None },
            ..Default::default()
        };
        let sess = Session::new(&cfg);
        // per model: the variant deployed now, and every event registered since the last removal
        let mut deployed: BTreeMap<usize, usize> = BTreeMap::new();
        let mut ever: BTreeMap<usize, BTreeSet<String>> = BTreeMap::new();
        for (d, k) in idx.iter().enumerate() {
            let (dep, i, v) = alphabet[*k];
            let ex = sess.engine.executor();
            if dep {
                let wf = acts::Workflow::from_yml(&model_yml(i, v)).unwrap();
                let _ = ex.model().deploy(&wf);
                deployed.insert(i, v);
                ever.entry(i).or_default().extend(events_of(i, v).into_iter().map(|e| format!("em{i}:{e}")));
            } else {
                let _ = ex.model().rm(&format!("em{i}"));
                deployed.remove(&i);
                ever.remove(&i);
            }
            edges += 1;
            seen.insert(format!("{deployed:?}{ever:?}"));
            let h = sess.engine.verif();
            let evs: BTreeSet<String> = h.events().query(&Query::new()).map(|p| p.rows.iter().map(|e| e.id.clone()).collect()).unwrap_or_default();
            // every `on` entry of the deployed definitions is registered; nothing is registered that was
            // never declared; nothing of a removed model is left
            let must: BTreeSet<String> = deployed.iter().flat_map(|(i, v)| events_of(*i, *v).into_iter().map(move |e| format!("em{i}:{e}"))).collect();
            let may: BTreeSet<String> = ever.values().flatten().cloned().collect();
            let models: BTreeSet<String> = h.models().query(&Query::new()).map(|p| p.rows.iter().map(|m| m.id.clone()).collect()).unwrap_or_default();
            let want_models: BTreeSet<String> = deployed.keys().map(|i| format!("em{i}")).collect();
            let seq: Vec<String> = idx[..=d].iter().map(|k| format!("{}(em{} v{})", if alphabet[*k].0 { "deploy" } else { "rm" }, alphabet[*k].1, alphabet[*k].2)).collect();
            let missing: Vec<&String> = must.iter().filter(|e| !evs.contains(*e)).collect();
            let left: Vec<&String> = evs.iter().filter(|e| !may.contains(*e)).collect();
            if !missing.is_empty() {
                viols.entry("models/events-lost".into()).or_insert(format!("after {seq:?}: the start events {missing:?} of deployed models are not registered (rows {evs:?})"));
            }
            if !left.is_empty() {
                viols.entry("models/events-left".into()).or_insert(format!("after {seq:?}: the event rows {left:?} belong to no deployed model"));
            }
            if models != want_models {
                viols.entry("models/model-rows".into()).or_insert(format!("after {seq:?}: model rows {models:?}, expected {want_models:?}"));
            }
        }
        let mut p = depth;
        loop {
            if p == 0 {
                break 'outer;
            }
            p -= 1;
            idx[p] += 1;
            if idx[p] < alphabet.len() {
                break;
            }
            idx[p] = 0;
        }
    }
    out.count("states", seen.len() as i64);
    out.count("edges", edges);
    out.count("evaluations", edges);
    out.executions += edges as u64;
    out.transitions += edges as u64;
    for s in &seen {
        out.add_state(&scen, s);
    }
    for (sig, what) in viols {
        out.violations.push(Violation {
            property: "C17".into(),
            sig: sig.clone(),
            scenario: scen.clone(),
            detail: String::new(),
            what: what.clone(),
            replay: json!({"property": "C17", "signature": sig, "what": what, "models": (0..3).map(|i| model_yml(i, 0)).collect::<Vec<_>>()}),
        });
    }
}

pub struct C17;

impl Check for C17 {
    fn info(&self, tier: Tier) -> CheckInfo {
        CheckInfo {
            id: "C17",
            level: "model_checking",
            rule: "two interleaved processes (single interrupt; two branches with an interrupt each) that end by every pair of {complete, abort, skip, error} in both orders, each followed by a further action on the finished process, x both keep_processes settings x both stores, with an acknowledging channel so that message rows exist; every order of the queued engine work within the deviation bound; after every operation at quiescence the complete store (all proc, task and message rows) is compared with the snapshot before it; plus every sequence up to a depth of deploy / rm over three models with 2, 1 and 0 start events and redeploys that drop or add an event".into(),
            assumptions: vec!["client operations are issued at quiescent points; the races of a removal with in-flight work are C03/C13".into()],
            budget_s: tier.pick(50, 900),
            exhaustive_when_uncapped: true,
            bounds: json!({"processes": 2, "deviations": 1, "model_sequence_depth": tier.pick(4, 6)}),
        }
    }
    fn items(&self, tier: Tier) -> Vec<Value> {
        let mut v: Vec<Value> = scenarios(tier).iter().enumerate().map(|(i, s)| json!({"id": s.id, "scn": i})).collect();
        v.push(json!({"id": "models/memory", "models": "memory", "depth": tier.pick(4, 6)}));
        v.push(json!({"id": "models/sqlite", "models": "sqlite", "depth": tier.pick(3, 5)}));
        v
    }
    fn run_item(&self, tier: Tier, item: &Value, out: &mut ItemOut) {
        if let Some(b) = item.get("models").and_then(|x| x.as_str()) {
            models_part(b == "sqlite", item["depth"].as_u64().unwrap() as usize, out);
            return;
        }
        let sc = scenarios(tier).swap_remove(item["scn"].as_u64().unwrap() as usize);
        let desc = json!({"models": sc.models, "keep_processes": sc.keep, "store": if sc.sqlite { "sqlite" } else { "memory" }, "script": format!("{:?}", sc.script)});
        explore_scenario(out, "C17", &sc.id, &desc, Some(1), 100_000, item["scn"] == 0, &|ch, log| run_one(ch, &sc, log));
    }
}
