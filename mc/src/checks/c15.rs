//! C15 — Sub-process call and return: A-mode exhaustive over the return activity, the client
//! answers and all parent activity; two and three levels; every way the child can end.
use super::common::vars_of;
use crate::amode::{digest, is_terminal_state, trace_log};
use crate::explore::Chooser;
use crate::report::*;
use crate::world::{Cfg, Session, Tr};
use serde_json::{Value, json};
use std::collections::BTreeSet;

#[derive(Clone, Debug)]
pub struct Scn {
    pub id: String,
    /// how the innermost process is ended: complete / error / abort / skip / missing (no such model)
    pub ending: &'static str,
    pub levels: usize,
    /// the calling act declares outputs
    pub declared: bool,
    /// an interrupt act follows the calling act in the same step
    pub follow: bool,
    /// the client closes the calling act itself with this action while the child is still open
    pub client_closes: Option<&'static str>,
}

pub fn scenarios(tier: Tier) -> Vec<Scn> {
    let mut v = vec![];
    for levels in [2usize, 3] {
        // "throw": the child fails by itself (a script that throws: an error raised by the engine, without a code)
        for ending in ["complete", "error", "abort", "skip", "missing", "throw"] {
            for declared in [false, true] {
                for follow in [false, true] {
                    if (declared || follow) && (ending == "missing" || levels == 3) {
                        continue;
                    }
                    if declared && follow {
                        continue;
                    }
                    if tier == Tier::Quick && levels == 3 && !matches!(ending, "complete" | "error" | "missing") {
                        continue;
                    }
                    v.push(Scn {
                        id: format!("sub/{levels}-levels/{ending}{}{}", if declared { "/declared-outputs" } else { "" }, if follow { "/act-after-call" } else { "" }),
                        ending,
                        levels,
                        declared,
                        follow,
                        client_closes: None,
                    });
                }
            }
        }
    }
    // the client closes the calling act under the running child; the child's ending arrives late
    for closes in ["skip", "complete", "abort"] {
        for ending in ["complete", "error", "abort"] {
            if tier == Tier::Quick && closes == "complete" && ending != "abort" {
                continue;
            }
            v.push(Scn {
                id: format!("sub/2-levels/{ending}/client-{closes}s-the-call"),
                ending,
                levels: 2,
                declared: false,
                follow: false,
                client_closes: Some(closes),
            });
        }
    }
    v
}

fn models(sc: &Scn) -> Vec<String> {
    // parent: the call in one branch, an interrupt in the sibling branch
    let target = if sc.ending == "missing" && sc.levels == 2 { "nosuch" } else { "child" };
    let outs = if sc.declared { "                outputs:\n                  r:\n" } else { "" };
    let follow = if sc.follow { "              - uses: acts.core.irq\n                key: fa\n" } else { "" };
    // the innermost process: an interrupt, and in the "throw" variant a script that throws after it
    let thrower = if sc.ending == "throw" { "      - uses: acts.transform.code\n        key: boom\n        params: \"throw new Error('boom')\"\n" } else { "" };
    let parent = format!(
        "id: parent\noutputs:\n  r:\nsteps:\n  - id: s1\n    branches:\n      - id: b1\n        if: \"true\"\n        steps:\n          - id: s11\n            acts:\n              - uses: acts.core.subflow\n                key: call\n{outs}                params:\n                  to: {target}\n                  options:\n                    pid: c1\n                    a: abc\n                    b: 1\n                    lvl: 7\n{follow}      - id: b2\n        if: \"true\"\n        steps:\n          - id: s21\n            acts:\n              - uses: acts.core.irq\n                key: pa\n  - id: s2\n"
    );
    let mut v = vec![parent];
    if sc.levels == 2 {
        v.push(format!("id: child\noutputs:\n  r:\ninputs:\n  r: 0\n  lvl: 1\nsteps:\n  - id: cs1\n    acts:\n      - uses: acts.core.irq\n        key: ca\n{thrower}"));
    } else {
        let gt = if sc.ending == "missing" { "nosuch" } else { "grand" };
        v.push(format!(
            "id: child\noutputs:\n  r:\ninputs:\n  r: 0\n  lvl: 1\nsteps:\n  - id: cs1\n    acts:\n      - uses: acts.core.subflow\n        key: call2\n        params:\n          to: {gt}\n          options:\n            pid: g1\n            a: abc\n            b: 1\n            lvl: 7\n"
        ));
        v.push(format!("id: grand\noutputs:\n  r:\ninputs:\n  r: 0\n  lvl: 1\nsteps:\n  - id: gs1\n    acts:\n      - uses: acts.core.irq\n        key: ca\n{thrower}"));
    }
    v
}

pub fn run_one(ch: &mut Chooser, sc: &Scn, want_log: bool) -> RunObs {
    let mut sess = Session::new(&Cfg::keep());
    for m in models(sc) {
        sess.deploy(&m);
    }
    let _ = sess.start("parent", &vars_of(&json!({"pid": "p1"})));
    let mut closed_by_client: Option<usize> = None;
    if let Some(kind) = sc.client_closes {
        // up to the point where the child waits for its answer, then the client acts on the calling act
        sess.drain();
        if let Some(tid) = sess.dump("p1").and_then(|d| d.tasks.iter().find(|t| t.key == "call" && t.kind == "act").map(|t| t.tid.clone())) {
            let at = sess.w.trace_len();
            if sess.act(kind, "p1", &tid, &acts::Vars::new()).is_ok() {
                closed_by_client = Some(at);
            }
        }
    }
    let mut answered: BTreeSet<String> = BTreeSet::new();
    let mut states = vec![];
    let mut steps = 0;
    loop {
        let acts = sess.enabled();
        let open: Vec<acts::Message> = sess.open_irqs(None).into_iter().filter(|m| !answered.contains(&m.tid)).collect();
        let n = acts.len() + open.len();
        if n == 0 {
            break;
        }
        steps += 1;
        if steps > 300 {
            ch.horizon_hit = true;
            break;
        }
        states.push(crate::amode::fingerprint(&sess, &acts));
        let c = ch.choose(n);
        if c < acts.len() {
            ch.label(|| acts[c].label());
            sess.run(acts[c].seq);
        } else {
            let m = &open[c - acts.len()];
            let kind = if m.key == "ca" {
                match sc.ending {
                    "missing" | "throw" => "complete",
                    e => e,
                }
            } else {
                "complete"
            };
            let opts = match (m.key.as_str(), kind) {
                ("ca", "complete") => json!({"r": 5}),
                (_, "error") => json!({"ecode": "e7", "message": "child failed"}),
                _ => json!({}),
            };
            ch.label(|| format!("client {kind} {}:{}({})", m.pid, m.tid, m.key));
            let _ = sess.act(kind, &m.pid, &m.tid, &vars_of(&opts));
            answered.insert(m.tid.clone());
        }
    }
    // ---- oracle ----
    let trace = sess.w.trace_snapshot();
    let mut viols: Vec<(String, String)> = vec![];
    let mut push = |sig: String, what: String| {
        if !viols.iter().any(|(s, _)| *s == sig) {
            viols.push((sig, what));
        }
    };
    if sess.scheduler_dead || !sess.panics.is_empty() {
        push("panic".into(), format!("panics: {:?}", sess.panics));
    }
    // (caller pid, key of the calling act, callee pid)
    let mut links: Vec<(&str, &str, &str)> = vec![("p1", "call", "c1")];
    if sc.levels == 3 {
        links.push(("c1", "call2", "g1"));
    }
    let term_index = |pid: &str| -> Option<(usize, &'static str, acts::Message)> {
        trace.iter().enumerate().find_map(|(i, t)| match t {
            Tr::Emit { channel, msg } if (*channel == "complete" || *channel == "error") && msg.pid == pid => Some((i, *channel, msg.clone())),
            _ => None,
        })
    };
    let horizon = ch.horizon_hit;
    for (caller, key, callee) in &links {
        let callee_missing = sc.ending == "missing" && *callee == if sc.levels == 2 { "c1" } else { "g1" };
        // the calling act
        let call_events: Vec<(usize, String)> = trace
            .iter()
            .enumerate()
            .filter_map(|(i, t)| match t {
                Tr::TaskEvent { pid, key: k, state, kind, .. } if pid == caller && k == key && kind == "act" => Some((i, state.clone())),
                _ => None,
            })
            .collect();
        let closes: Vec<&(usize, String)> = call_events.iter().filter(|(_, s)| is_terminal_state(s)).collect();
        let mut distinct_close: Vec<String> = closes.iter().map(|(_, s)| s.clone()).collect();
        distinct_close.dedup();
        let child_term = term_index(callee);
        if callee_missing {
            // a missing target model fails the calling act instead of hanging it
            if !horizon && !closes.iter().any(|(_, s)| s == "error") {
                push(format!("missing-model/act-{}", closes.last().map(|(_, s)| s.as_str()).unwrap_or("left-open")), format!("the model called by {caller}:{key} does not exist but the calling act is {:?}", call_events.last()));
            }
            continue;
        }
        match &child_term {
            None => {
                if !closes.is_empty() {
                    push(format!("closed-before-child-ended/{}", closes[0].1), format!("{caller}:{key} was closed ({}) although {callee} never delivered a terminal event", closes[0].1));
                }
                if !horizon && sc.ending != "missing" {
                    push("child-never-ended".into(), format!("{callee} delivered no terminal event"));
                }
            }
            Some((ci, chan, cmsg)) => {
                if let Some((i, s)) = closes.first() {
                    if i < ci && !(closed_by_client.is_some() && *caller == "p1") {
                        push(format!("closed-before-child-ended/{s}"), format!("{caller}:{key} was closed ({s}) before the terminal event of {callee}"));
                    }
                }
                if closes.is_empty() && !horizon {
                    push("calling-act-left-open".into(), format!("{callee} ended ({chan}) but {caller}:{key} is still {:?}", call_events.last().map(|x| &x.1)));
                }
                if distinct_close.len() > 1 {
                    push(format!("closed-twice/{}", distinct_close.join("+")), format!("{caller}:{key} was closed more than once: {distinct_close:?}"));
                }
                // the mapped state
                let child_state = format!("{:?}", cmsg.state).to_lowercase();
                let want = match child_state.as_str() {
                    "completed" => "completed",
                    "error" => "error",
                    "aborted" => "aborted",
                    "skipped" => "skipped",
                    s => s,
                }
                .to_string();
                if let Some((_, s)) = closes.first() {
                    if *s != want && !(closed_by_client.is_some() && *caller == "p1") {
                        push(format!("mapped-state/{child_state}-as-{s}"), format!("{callee} ended {child_state} but {caller}:{key} was closed as {s}"));
                    }
                }
                // the parent's terminal event never precedes the child's
                if let Some((pi, _, _)) = term_index(caller) {
                    // (a client that closes the calling act itself has let the parent go on alone)
                    if pi < *ci && !(closed_by_client.is_some() && *caller == "p1") {
                        push("parent-ended-before-child".into(), format!("the terminal event of {caller} precedes that of {callee}"));
                    }
                }
                // outputs / error code handed back
                if let Some(d) = sess.dump(caller) {
                    if let Some(t) = d.tasks.iter().find(|t| t.key == *key && t.kind == "act") {
                        let data: Value = serde_json::from_str(&t.data).unwrap_or_default();
                        if child_state == "completed" && sc.ending == "complete" && closed_by_client.is_none() && data.get("r") != Some(&json!(5)) {
                            push("outputs-not-returned".into(), format!("{callee} completed with r = 5 but the data of {caller}:{key} is {data}"));
                        }
                        if child_state == "error" && closed_by_client.is_none() {
                            // the code and message of the child's own error event
                            let cin = serde_json::to_value(&cmsg.inputs).unwrap_or_default();
                            let (wc, wm) = (cin.get("ecode").cloned().unwrap_or(Value::Null), cin.get("message").cloned().unwrap_or(Value::Null));
                            let err: Value = t.err.as_ref().and_then(|e| serde_json::from_str(e).ok()).unwrap_or_default();
                            if err.get("ecode") != Some(&wc) || err.get("message") != Some(&wm) {
                                push("error-not-forwarded".into(), format!("{callee} failed with {wc} / {wm} but {caller}:{key} carries {err}"));
                            }
                            if sc.ending == "error" && *callee == (if sc.levels == 2 { "c1" } else { "g1" }) && (wc != json!("e7") || wm != json!("child failed")) {
                                push("error-event-code".into(), format!("the client failed {callee} with e7 / 'child failed' but its error event carries {wc} / {wm}"));
                            }
                            if sc.ending == "throw" && !wm.as_str().unwrap_or("").contains("boom") {
                                push("error-event-code".into(), format!("{callee} failed with a script error 'boom' but its error event carries {wc} / {wm}"));
                            }
                        }
                    }
                }
            }
        }
        // the child starts with exactly the inputs given in the call (+ the two link keys)
        let child_root_data = trace.iter().find_map(|t| match t {
            Tr::Emit { channel: "start", msg } if msg.pid == *callee => Some(serde_json::to_value(&msg.inputs).unwrap_or_default()),
            _ => None,
        });
        if let Some(d) = sess.dump(callee) {
            if let Some(root) = d.tasks.iter().find(|t| t.tid == "$") {
                let data: Value = serde_json::from_str(&root.data).unwrap_or_default();
                let o = data.as_object().cloned().unwrap_or_default();
                let mut extra: Vec<String> = o.keys().filter(|k| !["a", "b", "lvl", "pid", "r", "$parent_pid", "$parent_tid", "data"].contains(&k.as_str()) && !k.starts_with('$')).cloned().collect();
                extra.sort();
                // lvl is also declared by the called model (default 1): the value given in the call wins
                if o.get("a") != Some(&json!("abc")) || o.get("b") != Some(&json!(1)) || o.get("lvl") != Some(&json!(7)) || o.get("$parent_pid") != Some(&json!(*caller)) || !extra.is_empty() {
                    push("child-inputs".into(), format!("{callee} was started with {data} (call options a=abc, b=1, lvl=7 from {caller}); unexpected keys {extra:?}"));
                }
            }
        }
        let _ = child_root_data;
    }
    // the act after the call in the same step: only after the call is closed, and once
    if sc.follow {
        let call_closed = trace.iter().position(|t| matches!(t, Tr::TaskEvent { pid, key, state, kind, .. } if pid == "p1" && key == "call" && kind == "act" && is_terminal_state(state)));
        let fa: Vec<(usize, String)> = trace
            .iter()
            .enumerate()
            .filter_map(|(i, t)| match t {
                Tr::TaskEvent { pid, key, tid, kind, .. } if pid == "p1" && key == "fa" && kind == "act" => Some((i, tid.clone())),
                _ => None,
            })
            .collect();
        let mut tids: Vec<&String> = fa.iter().map(|(_, t)| t).collect();
        tids.sort();
        tids.dedup();
        if let Some((i, _)) = fa.first() {
            if call_closed.map(|c| *i < c).unwrap_or(true) {
                push("successor-before-call-closed".into(), "the act after the calling act was started while the call was still open".into());
            }
        }
        if tids.len() > 1 {
            push(format!("successor-instances/{}", tids.len()), format!("the act after the calling act was instantiated {} times", tids.len()));
        }
        if !horizon && sc.ending == "complete" && tids.is_empty() {
            push("successor-missing".into(), "the child completed but the act after the calling act never ran".into());
        }
    }
    // the whole thing ends: the parent has a terminal event at quiescence
    if !horizon && term_index("p1").is_none() {
        push("parent-never-ended".into(), "every interrupt was answered but the parent delivered no terminal event".into());
    }
    let log = trace_log(&trace);
    let outcome = format!(
        "{:?}",
        ["p1", "c1", "g1"].iter().map(|p| term_index(p).map(|(_, c, m)| format!("{c}:{:?}", m.state))).collect::<Vec<_>>()
    );
    RunObs {
        digest: digest(&log, &format!("{:?}", sess.results)),
        states,
        outcome,
        viols,
        detail: String::new(),
        log: if want_log { log } else { vec![] },
        machinery: sess.machinery_errors(),
    }
}

pub struct C15;

impl Check for C15 {
    fn info(&self, tier: Tier) -> CheckInfo {
        CheckInfo {
            id: "C15",
            level: "model_checking",
            rule: "a parent whose calling act sits in one branch while an interrupt is open in the sibling branch, a child (and a grandchild in the 3-level variant) ended by complete with outputs / error with code and message / abort / skip / a script that throws, a missing target model, declared outputs on the call with every ending, an interrupt act after the call in the same step, the client closing the calling act itself (skip / complete / abort) under the running child; every order of queued tasks, launches, return activities and client answers (A-mode exhaustive; three levels deviation-bounded in quick, exhaustive in thorough); oracle per call: open until the callee's terminal event, closed once with the mapped state, outputs / error code handed back, callee started with exactly the call options plus the link keys, caller's terminal event after the callee's, missing model fails the act, the act after the call starts once and only after the call is closed".into(),
            assumptions: vec!["activities are atomic; no reachable way was found for a process to end in state skipped (skipping the child's only act ends the child completed), so the skipped mapping is reported as vacuous".into()],
            budget_s: tier.pick(50, 600),
            exhaustive_when_uncapped: true,
            bounds: json!({"levels": [2, 3], "deviations_for_three_levels": tier.pick("2", "unbounded")}),
        }
    }
    fn items(&self, tier: Tier) -> Vec<Value> {
        let mut v = vec![];
        for (si, s) in scenarios(tier).iter().enumerate() {
            let bound = if s.levels == 2 || tier == Tier::Thorough { None } else { Some(2) };
            let (singles, roots) = crate::explore::split_frontier(bound, 24, |ch| {
                run_one(ch, s, false);
            });
            for (k, p) in singles.iter().enumerate() {
                v.push(json!({"id": format!("{}#s{}", s.id, k), "scenario": s.id, "scn": si, "prefix": p, "single": true}));
            }
            for (k, p) in roots.iter().enumerate() {
                v.push(json!({"id": format!("{}#{}", s.id, k), "scenario": s.id, "scn": si, "prefix": p, "single": false}));
            }
        }
        v
    }
    fn run_item(&self, tier: Tier, item: &Value, out: &mut ItemOut) {
        let s = scenarios(tier).swap_remove(item["scn"].as_u64().unwrap() as usize);
        let bound = if s.levels == 2 || tier == Tier::Thorough { None } else { Some(2) };
        let prefix: Vec<u32> = item["prefix"].as_array().unwrap().iter().map(|x| x.as_u64().unwrap() as u32).collect();
        let single = item["single"].as_bool().unwrap();
        let desc = json!({"models": models(&s), "innermost_process_ended_by": s.ending});
        explore_scenario_from(out, "C15", &s.id, &desc, bound, 3_000_000, prefix.is_empty(), &prefix, single, spill_after(), &|ch, log| run_one(ch, &s, log));
    }
}
