//! C16 — Generated acts and lifecycle hooks run exactly as many times as specified.
//! A-mode exhaustive over the completion orders of the generated interrupts.
use super::common::vars_of;
use crate::amode::{digest, is_terminal_state, trace_log};
use crate::explore::Chooser;
use crate::report::*;
use crate::world::{Cfg, Session, Tr};
use serde_json::{Value, json};
use std::collections::BTreeMap;

#[derive(Clone, Debug)]
pub enum Scn {
    /// generator kind (parallel / sequence / block-parallel / block-sequence), list length, body
    Gen { kind: &'static str, n: usize, body: Vec<&'static str> },
    /// sequence over two items whose body is a parallel act over two items
    Nested,
    /// `lifo`: the default schedule takes the newest queued task first (the oldest is delayed longest)
    Hooks { host: &'static str, lifo: bool },
    /// hooks on a workflow / step whose acts are generated (a parallel act over two items, a block)
    HooksNested { host: &'static str, over: &'static str },
    Push,
}

impl Scn {
    pub fn id(&self) -> String {
        match self {
            Scn::Gen { kind, n, body } => format!("gen/{kind}/n{n}/{}", body.join("+")),
            Scn::Nested => "gen/nested/sequence-of-parallel".into(),
            Scn::Hooks { host, lifo } => format!("hooks/{host}{}", if *lifo { "/lifo" } else { "" }),
            Scn::HooksNested { host, over } => format!("hooks/{host}/over-{over}"),
            Scn::Push => "push".into(),
        }
    }
}

pub fn scenarios(tier: Tier) -> Vec<Scn> {
    let mut v = vec![];
    for kind in ["parallel", "sequence"] {
        for n in 0..=3usize {
            for body in [vec!["irq"], vec!["irq", "msg"], vec!["msg", "irq"], vec!["irq", "irq"]] {
                if tier == Tier::Quick && n == 3 && body.iter().filter(|b| **b == "irq").count() > 1 {
                    continue;
                }
                v.push(Scn::Gen { kind, n, body });
            }
        }
    }
    for kind in ["block-parallel", "block-sequence"] {
        for body in [vec!["irq"], vec!["irq", "msg"], vec!["irq", "irq"], vec!["msg", "irq", "irq"]] {
            v.push(Scn::Gen { kind, n: 1, body });
        }
    }
    v.push(Scn::Nested);
    for host in ["workflow", "step", "act"] {
        v.push(Scn::Hooks { host, lifo: false });
        v.push(Scn::Hooks { host, lifo: true });
    }
    for host in ["workflow", "step"] {
        for over in ["parallel", "sequence", "block"] {
            v.push(Scn::HooksNested { host, over });
        }
    }
    v.push(Scn::Push);
    v
}

fn body_yml(body: &[&str], ind: &str) -> String {
    let mut s = String::new();
    for (i, b) in body.iter().enumerate() {
        s += &format!("{ind}- uses: acts.core.{b}\n{ind}  key: g{i}\n");
    }
    s
}

const VALUES: [&str; 3] = ["u0", "u1", "u2"];

pub fn model(sc: &Scn) -> String {
    match sc {
        Scn::Gen { kind, n, body } => {
            let list: Vec<String> = VALUES[..*n].iter().map(|v| format!("\"{v}\"")).collect();
            let (uses, head) = match *kind {
                "parallel" => ("acts.core.parallel", format!("          in: [{}]\n", list.join(", "))),
                "sequence" => ("acts.core.sequence", format!("          in: [{}]\n", list.join(", "))),
                "block-parallel" => ("acts.core.block", "          mode: parallel\n".to_string()),
                _ => ("acts.core.block", "          mode: sequence\n".to_string()),
            };
            format!(
                "id: m16\nsteps:\n  - id: s1\n    acts:\n      - uses: {uses}\n        key: gen\n        params:\n{head}          acts:\n{}  - id: s2\n    acts:\n      - uses: acts.core.msg\n        key: after\n",
                body_yml(body, "            ")
            )
        }
        Scn::Nested => "id: m16\nsteps:\n  - id: s1\n    acts:\n      - uses: acts.core.sequence\n        key: gen\n        params:\n          in: [\"u0\", \"u1\"]\n          acts:\n            - uses: acts.core.parallel\n              key: inner\n              params:\n                in: [\"x\", \"y\"]\n                acts:\n                  - uses: acts.core.irq\n                    key: g0\n  - id: s2\n    acts:\n      - uses: acts.core.msg\n        key: after\n".to_string(),
        Scn::Hooks { host, .. } => {
            let hooks = |ind: &str, ons: &[&str]| -> String {
                let mut s = format!("{ind}setup:\n");
                for on in ons {
                    s += &format!("{ind}  - uses: acts.core.msg\n{ind}    key: hook-{on}\n{ind}    on: {on}\n");
                }
                s
            };
            let all = ["created", "completed", "before_update", "updated", "step"];
            let (w, s, a) = match *host {
                "workflow" => (hooks("", &all), String::new(), String::new()),
                "step" => (String::new(), hooks("    ", &all), String::new()),
                _ => (String::new(), String::new(), hooks("        ", &["created", "completed"])),
            };
            format!(
                "id: m16\n{w}steps:\n  - id: s1\n{s}    acts:\n      - uses: acts.core.irq\n        key: a1\n{a}      - uses: acts.core.msg\n        key: m1\n      - uses: acts.core.irq\n        key: a2\n        if: \"false\"\n  - id: s2\n    acts:\n      - uses: acts.core.irq\n        key: a3\n  - id: s3\n    if: \"false\"\n"
            )
        }
        Scn::HooksNested { host, over } => {
            let mut hooks = String::new();
            let ind = if *host == "workflow" { "" } else { "    " };
            hooks += &format!("{ind}setup:\n");
            for on in ["created", "completed", "before_update", "updated", "step"] {
                hooks += &format!("{ind}  - uses: acts.core.msg\n{ind}    key: hook-{on}\n{ind}    on: {on}\n");
            }
            let (w, s) = if *host == "workflow" { (hooks, String::new()) } else { (String::new(), hooks) };
            let g = match *over {
                "parallel" => "      - uses: acts.core.parallel\n        key: gen\n        params:\n          in: [\"u0\", \"u1\"]\n          acts:\n            - uses: acts.core.irq\n              key: g0\n",
                "sequence" => "      - uses: acts.core.sequence\n        key: gen\n        params:\n          in: [\"u0\", \"u1\"]\n          acts:\n            - uses: acts.core.irq\n              key: g0\n",
                _ => "      - uses: acts.core.block\n        key: gen\n        params:\n          mode: parallel\n          acts:\n            - uses: acts.core.irq\n              key: g0\n            - uses: acts.core.msg\n              key: g1\n",
            };
            format!("id: m16\n{w}steps:\n  - id: s1\n{s}    acts:\n{g}      - uses: acts.core.msg\n        key: m1\n  - id: s2\n    acts:\n      - uses: acts.core.irq\n        key: a3\n")
        }
        Scn::Push => "id: m16\nsteps:\n  - id: s1\n    acts:\n      - uses: acts.core.irq\n        key: a1\n  - id: s2\n".to_string(),
    }
}

fn options_of(m: &acts::Message) -> (Option<i64>, Option<String>) {
    let inputs = serde_json::to_value(&m.inputs).unwrap_or_default();
    let o = &inputs["options"];
    (o.get("$index").and_then(|v| v.as_i64()), o.get("$value").and_then(|v| v.as_str()).map(|s| s.to_string()))
}

pub fn run_one(ch: &mut Chooser, sc: &Scn, want_log: bool) -> RunObs {
    let mut sess = Session::new(&Cfg::keep());
    sess.deploy(&model(sc));
    let _ = sess.start("m16", &vars_of(&json!({"pid": "p1"})));
    let mut states = vec![];
    let mut steps = 0;
    let mut open_at_first_quiescence: Option<Vec<acts::Message>> = None;
    let mut pushed = false;
    let mut answered_any = false;
    let mut refused: std::collections::BTreeSet<String> = Default::default();
    let mut push_result: Option<Result<(), String>> = None;
    loop {
        let mut acts = sess.enabled();
        if matches!(sc, Scn::Hooks { lifo: true, .. }) {
            acts.reverse();
        }
        // an answer that was refused is not repeated
        let open: Vec<acts::Message> = sess.open_irqs(Some("p1")).into_iter().filter(|m| !refused.contains(&m.tid)).collect();
        // what is open when the engine first runs dry, provided the client has not answered yet
        if acts.is_empty() && open_at_first_quiescence.is_none() && !answered_any {
            open_at_first_quiescence = Some(open.clone());
        }
        // the push operation: once, at any moment at which the step is open
        let can_push = matches!(sc, Scn::Push) && !pushed && sess.tid_of_key("p1", "a1").is_some();
        let n = acts.len() + open.len() + can_push as usize;
        if n == 0 {
            break;
        }
        steps += 1;
        if steps > 300 {
            ch.horizon_hit = true;
            break;
        }
        states.push(crate::amode::fingerprint(&sess, &acts));
        let c = ch.choose(n);
        if c < acts.len() {
            ch.label(|| acts[c].label());
            sess.run(acts[c].seq);
        } else if c < acts.len() + open.len() {
            let m = &open[c - acts.len()];
            ch.label(|| format!("client complete {}({})", m.tid, m.key));
            if sess.act("complete", "p1", &m.tid, &acts::Vars::new()).is_err() {
                refused.insert(m.tid.clone());
            }
            answered_any = true;
        } else {
            let step_tid = sess.messages().iter().find(|m| m.r#type == "step" && m.nid == "s1").map(|m| m.tid.clone()).unwrap_or_default();
            ch.label(|| "client push".to_string());
            push_result = Some(sess.act("push", "p1", &step_tid, &vars_of(&json!({"uses": "acts.core.irq", "key": "pushed"}))));
            pushed = true;
        }
    }
    // ---- oracle ----
    let trace = sess.w.trace_snapshot();
    let msgs = sess.messages();
    let mut viols: Vec<(String, String)> = vec![];
    let mut push = |sig: String, what: String| {
        if !viols.iter().any(|(s, _)| *s == sig) {
            viols.push((sig, what));
        }
    };
    let horizon = ch.horizon_hit;
    let done = trace.iter().any(|t| matches!(t, Tr::Emit { channel: "complete", .. }));
    if !horizon && !done {
        push("not-finished".into(), "every interrupt was answered but the process did not complete".into());
    }
    match sc {
        Scn::Gen { kind, n, body } => {
            let groups = if kind.starts_with("block") { 1 } else { *n };
            let irqs_per_group = body.iter().filter(|b| **b == "irq").count();
            let msgs_per_group = body.iter().filter(|b| **b == "msg").count();
            let gen_msgs: Vec<&acts::Message> = msgs.iter().filter(|m| m.key.starts_with('g') && m.key.len() == 2 && m.key != "gen").collect();
            let created: Vec<&&acts::Message> = gen_msgs.iter().filter(|m| m.uses == "acts.core.irq" && m.state == acts::MessageState::Created).collect();
            let msgacts: Vec<&&acts::Message> = gen_msgs.iter().filter(|m| m.uses == "acts.core.msg").collect();
            if created.len() != groups * irqs_per_group {
                push(format!("instances/irq/{}-of-{}", created.len(), groups * irqs_per_group), format!("{} generated interrupts were opened, {} expected ({} groups x {})", created.len(), groups * irqs_per_group, groups, irqs_per_group));
            }
            if msgacts.len() != groups * msgs_per_group {
                push(format!("instances/msg/{}-of-{}", msgacts.len(), groups * msgs_per_group), format!("{} generated message acts ran, {} expected", msgacts.len(), groups * msgs_per_group));
            }
            if !kind.starts_with("block") {
                // each group sees its own index and value
                let mut seen: BTreeMap<i64, String> = BTreeMap::new();
                for m in gen_msgs.iter() {
                    let (i, v) = options_of(m);
                    match (i, v) {
                        (Some(i), Some(v)) => {
                            if (i as usize) >= *n || VALUES[i as usize] != v {
                                push("index-value".into(), format!("a generated act carries $index {i} with $value {v}; the list is {:?}", &VALUES[..*n]));
                            }
                            seen.insert(i, v);
                        }
                        _ => push("index-value-missing".into(), format!("the generated act {} carries no $index / $value", m.key)),
                    }
                }
                if seen.len() != *n && (irqs_per_group + msgs_per_group) > 0 {
                    push("groups-missing".into(), format!("groups seen {:?}, expected indices 0..{n}", seen.keys().collect::<Vec<_>>()));
                }
            }
            let parallel = matches!(*kind, "parallel" | "block-parallel");
            if *kind == "parallel" && body[0] == "irq" {
                // all groups are opened at once: before the client answered anything every group waits
                let idx: Option<std::collections::BTreeSet<i64>> = open_at_first_quiescence.as_ref().map(|f| f.iter().filter_map(|m| options_of(m).0).collect());
                if let Some(idx) = idx.filter(|i| i.len() != *n) {
                    push("parallel-not-at-once".into(), format!("at the first quiescent point {} of {n} groups were open", idx.len()));
                }
            }
            if *kind == "block-parallel" {
                if let Some(first) = open_at_first_quiescence.clone().filter(|f| f.len() != irqs_per_group) {
                    push("parallel-not-at-once".into(), format!("a parallel block opened {} of its {} interrupts at once", first.len(), irqs_per_group));
                }
            }
            // order inside a group (sequence mode of the group body) and between groups (sequence act)
            let pos = |pred: &dyn Fn(&acts::Message) -> bool| -> Vec<usize> { msgs.iter().enumerate().filter(|(_, m)| pred(m)).map(|(i, _)| i).collect() };
            if !parallel || *kind == "parallel" {
                for g in 0..groups.max(1) {
                    let in_group = |m: &acts::Message| kind.starts_with("block") || options_of(m).0 == Some(g as i64);
                    for k in 1..body.len() {
                        let prev_key = format!("g{}", k - 1);
                        let key = format!("g{k}");
                        let prev_end = pos(&|m| in_group(m) && m.key == prev_key && m.state != acts::MessageState::Created);
                        let this_start = pos(&|m| in_group(m) && m.key == key);
                        if let (Some(pe), Some(ts)) = (prev_end.last(), this_start.first()) {
                            if ts < pe {
                                push("group-body-order".into(), format!("in group {g} the act {key} was announced before {prev_key} ended"));
                            }
                        }
                    }
                }
            }
            if *kind == "sequence" {
                for g in 1..groups {
                    let prev_end = pos(&|m| m.key.starts_with('g') && m.key != "gen" && options_of(m).0 == Some(g as i64 - 1) && m.state != acts::MessageState::Created);
                    let this_start = pos(&|m| m.key.starts_with('g') && m.key != "gen" && options_of(m).0 == Some(g as i64));
                    if let (Some(pe), Some(ts)) = (prev_end.last(), this_start.first()) {
                        if ts < pe {
                            push("sequence-order".into(), format!("group {g} was opened before group {} had ended", g - 1));
                        }
                    }
                }
            }
        }
        Scn::Nested => {
            let created = msgs.iter().filter(|m| m.key == "g0" && m.state == acts::MessageState::Created).count();
            if created != 4 {
                push(format!("instances/nested/{created}-of-4"), format!("{created} interrupts were generated by a sequence over 2 of a parallel over 2"));
            }
            if let Some(first) = open_at_first_quiescence.as_ref().map(|f| f.len()).filter(|f| *f != 2) {
                push("nested-order".into(), format!("at the first quiescent point {first} interrupts are open; the first outer group has 2"));
            }
            // the generated interrupts belong to the groups of the inner parallel act: each sees the
            // index and value of its own (inner) group, twice over (once per outer group)
            let mut pairs: Vec<(i64, String)> = msgs
                .iter()
                .filter(|m| m.key == "g0" && m.state == acts::MessageState::Created)
                .filter_map(|m| {
                    let (i, v) = options_of(m);
                    i.zip(v)
                })
                .collect();
            pairs.sort();
            let want: Vec<(i64, String)> = vec![(0, "x".into()), (0, "x".into()), (1, "y".into()), (1, "y".into())];
            if created == 4 && pairs != want {
                push("index-value/nested".into(), format!("the interrupts generated by the inner parallel act carry ($index, $value) {pairs:?}, expected {want:?}"));
            }
        }
        _ => {}
    }
    // the generator (and every composite act) ends only after everything it generated, and the successor step after it
    if matches!(sc, Scn::Gen { .. } | Scn::Nested) {
        let gen_end = trace.iter().position(|t| matches!(t, Tr::TaskEvent { key, state, .. } if key == "gen" && is_terminal_state(state)));
        let last_generated_end = trace.iter().rposition(|t| matches!(t, Tr::Emit { channel: "message", msg } if msg.key.starts_with('g') && msg.key != "gen" && msg.state != acts::MessageState::Created));
        let s2_start = trace.iter().position(|t| matches!(t, Tr::TaskEvent { nid, .. } if nid == "s2"));
        if let (Some(g), Some(l)) = (gen_end, last_generated_end) {
            if g < l {
                push("generator-ended-early".into(), "the generating act ended before the last generated act".into());
            }
        }
        if let (Some(g), Some(s)) = (gen_end, s2_start) {
            if s < g {
                push("successor-before-generator-ended".into(), "step s2 started before the generating act ended".into());
            }
        }
        if !horizon && gen_end.is_none() {
            push("generator-never-ended".into(), "the generating act never ended".into());
        }
        if !horizon && !msgs.iter().any(|m| m.key == "after") {
            push("successor-never-ran".into(), "the step after the generator never ran".into());
        }
    }
    if let Scn::Hooks { host, .. } | Scn::HooksNested { host, .. } = sc {
        // expected firings from the lifecycle events of the trace (B.8)
        let host_is = |kind: &str, nid: &str, key: &str| match *host {
            "workflow" => kind == "workflow",
            "step" => kind == "step" && nid == "s1",
            _ => kind == "act" && key == "a1",
        };
        let mut exp: BTreeMap<&str, i64> = BTreeMap::new();
        let mut seen_created: std::collections::BTreeSet<String> = Default::default();
        let mut seen_ended: std::collections::BTreeSet<String> = Default::default();
        // the step each act belongs to
        let mut step_of: BTreeMap<String, String> = BTreeMap::new();
        let mut nid_of: BTreeMap<String, String> = BTreeMap::new();
        let mut prev_of: BTreeMap<String, (Option<String>, usize, String)> = BTreeMap::new();
        for t in &trace {
            if let Tr::TaskEvent { tid, nid, kind, prev, level, .. } = t {
                nid_of.insert(tid.clone(), nid.clone());
                prev_of.insert(tid.clone(), (prev.clone(), *level, kind.clone()));
            }
        }
        for (tid, (prev, level, kind)) in prev_of.clone() {
            if kind != "act" {
                continue;
            }
            let mut cur = prev;
            while let Some(p) = cur {
                match prev_of.get(&p) {
                    Some((pp, l, k)) => {
                        if *l < level && k == "step" {
                            step_of.insert(tid.clone(), nid_of[&p].clone());
                            break;
                        }
                        cur = pp.clone();
                    }
                    None => break,
                }
            }
        }
        for t in &trace {
            if let Tr::TaskEvent { tid, nid, kind, state, key, is_hook, .. } = t {
                if *is_hook {
                    continue;
                }
                let created_class = matches!(state.as_str(), "ready" | "pending" | "interrupted");
                let ended = is_terminal_state(state) && state != "error";
                let under_host = match *host {
                    "workflow" => true,
                    "step" => step_of.get(tid).map(|s| s == "s1").unwrap_or(false),
                    _ => false,
                };
                if created_class && seen_created.insert(tid.clone()) {
                    if host_is(kind, nid, key) {
                        *exp.entry("created").or_default() += 1;
                    }
                    if kind == "act" && under_host {
                        *exp.entry("before_update").or_default() += 1;
                    }
                }
                if ended && seen_ended.insert(tid.clone()) {
                    if host_is(kind, nid, key) {
                        *exp.entry("completed").or_default() += 1;
                    }
                    if kind == "act" && under_host {
                        *exp.entry("updated").or_default() += 1;
                    }
                    if kind == "step" && (*host == "workflow" || (*host == "step" && nid == "s1")) {
                        *exp.entry("step").or_default() += 1;
                    }
                }
            }
        }
        let ons: Vec<&str> = if *host == "act" { vec!["created", "completed"] } else { vec!["created", "completed", "before_update", "updated", "step"] };
        for on in ons {
            let got = msgs.iter().filter(|m| m.key == format!("hook-{on}")).count() as i64;
            let want = exp.get(on).copied().unwrap_or(0);
            if !horizon && got != want {
                push(format!("hook-count/{host}/{on}"), format!("the `{on}` hook of the {host} fired {got} times, {want} matching lifecycle events are in the trace"));
            }
        }
    }
    if let Scn::Push = sc {
        let pushed_tasks: std::collections::BTreeSet<String> = trace
            .iter()
            .filter_map(|t| match t {
                Tr::TaskEvent { tid, key, kind, .. } if key == "pushed" && kind == "act" => Some(tid.clone()),
                _ => None,
            })
            .collect();
        match &push_result {
            Some(Ok(())) => {
                if !horizon && pushed_tasks.len() != 1 {
                    push(format!("push/{}-tasks", pushed_tasks.len()), format!("an accepted push created {} act tasks", pushed_tasks.len()));
                }
            }
            Some(Err(_)) | None => {
                if !pushed_tasks.is_empty() {
                    push("push/rejected-but-created".into(), "a rejected push created a task".into());
                }
            }
        }
    }
    let log = trace_log(&trace);
    let outcome = format!("{done}/{}", msgs.len());
    RunObs {
        digest: digest(&log, &format!("{:?}", sess.results)),
        states,
        outcome,
        viols,
        detail: String::new(),
        log: if want_log { log } else { vec![] },
        machinery: sess.machinery_errors(),
    }
}

pub struct C16;

impl Check for C16 {
    fn info(&self, tier: Tier) -> CheckInfo {
        CheckInfo {
            id: "C16",
            level: "model_checking",
            rule: "parallel and sequence acts over lists of length 0..3 with bodies {irq; irq,msg; msg,irq; irq,irq}, parallel and sequential blocks, a sequence of parallels, lifecycle hooks with every `on` (created, completed, before_update, updated, step) on a workflow, a step and an act (with skipped acts and steps in the model), the same hooks on a workflow and a step whose acts are generated by a parallel act, a sequence act or a block, push into an open step at every moment; every order of queued tasks and client answers (A-mode exhaustive, deviation-bounded where three interrupts are open); oracle: number of generated instances, $index / $value per group, all groups of a parallel open at once, group order of a sequence, body order inside a group, generator ends after everything it generated and before its successor, hook firings = matching lifecycle events of the trace, one task per accepted push".into(),
            assumptions: vec!["activities are atomic".into()],
            budget_s: tier.pick(50, 600),
            exhaustive_when_uncapped: true,
            bounds: json!({"list_length": "0..3", "deviations_when_wide": tier.pick(3, 6)}),
        }
    }
    fn items(&self, tier: Tier) -> Vec<Value> {
        let mut v = vec![];
        for (si, s) in scenarios(tier).iter().enumerate() {
            let bound = bound_of(s, tier);
            let (singles, roots) = crate::explore::split_frontier(bound, 16, |ch| {
                run_one(ch, s, false);
            });
            for (k, p) in singles.iter().enumerate() {
                v.push(json!({"id": format!("{}#s{}", s.id(), k), "scenario": s.id(), "scn": si, "prefix": p, "single": true}));
            }
            for (k, p) in roots.iter().enumerate() {
                v.push(json!({"id": format!("{}#{}", s.id(), k), "scenario": s.id(), "scn": si, "prefix": p, "single": false}));
            }
        }
        v
    }
    fn run_item(&self, tier: Tier, item: &Value, out: &mut ItemOut) {
        let s = scenarios(tier).swap_remove(item["scn"].as_u64().unwrap() as usize);
        let prefix: Vec<u32> = item["prefix"].as_array().unwrap().iter().map(|x| x.as_u64().unwrap() as u32).collect();
        let single = item["single"].as_bool().unwrap();
        let desc = json!({"model": model(&s)});
        explore_scenario_from(out, "C16", &s.id(), &desc, bound_of(&s, tier), 3_000_000, prefix.is_empty(), &prefix, single, spill_after(), &|ch, log| run_one(ch, &s, log));
    }
}

fn bound_of(s: &Scn, tier: Tier) -> Option<usize> {
    match s {
        Scn::Gen { kind, n, body } if *kind == "parallel" && *n >= 2 && (*n >= 3 || body.iter().filter(|b| **b == "irq").count() > 1) => Some(tier.pick(3, 6)),
        Scn::Nested => Some(tier.pick(3, 6)),
        // hook acts are many small concurrent tasks
        Scn::Hooks { .. } => Some(tier.pick(2, 3)),
        Scn::HooksNested { .. } => Some(tier.pick(1, 2)),
        _ => None,
    }
}
