//! C06 — Errors propagate upward unless a matching catch takes them, exactly once.
//! Generated catch placements on a three-level spine, every error code and source, raised while a
//! second act is open in a sibling branch; A-mode exhaustive; reference prediction (B.3).
use super::common::vars_of;
use crate::amode::{digest, is_terminal_state, trace_log};
use crate::explore::Chooser;
use crate::report::*;
use crate::world::{Cfg, Session, Tr};
use serde_json::{Value, json};
use std::collections::BTreeMap;

/// a catch: (code or None = catch-all, body: 0 none / 1 msg step / 2 irq step /
/// 3 irq step whose act has a catch-all of its own with a msg step, and which the client fails with e9)
pub type CatchSpec = (Option<&'static str>, u8);

#[derive(Clone, Debug)]
pub struct Scn {
    pub id: String,
    /// two-branch spine (true) or a plain step with two acts (false)
    pub branches: bool,
    /// catch lists on the act, on the step around it, on the outer step (branch spine only)
    pub on_act: Vec<CatchSpec>,
    pub on_step: Vec<CatchSpec>,
    pub on_outer: Vec<CatchSpec>,
    /// error source: client error with a code, a throwing script, an unknown package
    pub source: &'static str,
    /// the sibling branch of the failing one is an `else` branch (parked, never taken)
    pub sibling_else: bool,
}

fn all_lists() -> Vec<Vec<CatchSpec>> {
    let singles: Vec<CatchSpec> = [Some("e1"), Some("e2"), None].iter().flat_map(|c| (0..3u8).map(move |b| (*c, b))).collect();
    let mut v: Vec<Vec<CatchSpec>> = vec![vec![]];
    for a in &singles {
        v.push(vec![*a]);
    }
    for a in &singles {
        for b in &singles {
            // two catches of one list name different things (the same code twice is pointless)
            if a.0 != b.0 {
                v.push(vec![*a, *b]);
            }
        }
    }
    v
}

fn name(l: &[CatchSpec]) -> String {
    if l.is_empty() {
        return "-".into();
    }
    l.iter().map(|(c, b)| format!("{}{}", c.unwrap_or("all"), ["", ":msg", ":irq", ":irq-failing-with-own-catch"][*b as usize])).collect::<Vec<_>>().join(",")
}

pub fn scenarios(tier: Tier) -> Vec<Scn> {
    let mut v = vec![];
    let lists = all_lists();
    let small: Vec<Vec<CatchSpec>> = vec![vec![], vec![(Some("e1"), 1)], vec![(None, 0)], vec![(Some("e2"), 2)], vec![(Some("e2"), 1), (Some("e1"), 2)]];
    // e10 has the catchable code e1 as a prefix
    let sources = ["e1", "e2", "e3", "e10", "script", "package"];
    let mut add = |branches: bool, a: &Vec<CatchSpec>, s: &Vec<CatchSpec>, o: &Vec<CatchSpec>, src: &'static str| {
        v.push(Scn {
            id: format!("catch/{}/act[{}]/step[{}]/outer[{}]/{src}", if branches { "branches" } else { "plain" }, name(a), name(s), name(o)),
            branches,
            on_act: a.clone(),
            on_step: s.clone(),
            on_outer: o.clone(),
            source: src,
            sibling_else: false,
        });
    };
    // one placement varied over every list, the others empty
    for l in &lists {
        for src in sources {
            if tier == Tier::Quick && l.len() == 2 && src != "e1" {
                continue;
            }
            add(false, l, &vec![], &vec![], src);
            add(false, &vec![], l, &vec![], src);
            if tier == Tier::Thorough || l.len() < 2 {
                add(true, &vec![], &vec![], l, src);
                add(true, &vec![], l, &vec![], src);
            }
        }
    }
    // an error inside the steps of a catch, taken by a catch of its own (a catch nested in catch steps)
    for l in [vec![(Some("e1"), 3u8)], vec![(None, 3)], vec![(Some("e2"), 1), (Some("e1"), 3)]] {
        for src in ["e1", "script"] {
            add(false, &l, &vec![], &vec![], src);
            add(false, &vec![], &l, &vec![], src);
            add(true, &vec![], &l, &vec![], src);
            add(true, &vec![], &vec![], &l, src);
            add(true, &vec![(Some("e7"), 1)], &vec![(Some("e8"), 1)], &l, src);
        }
    }
    // every combination of a small set on all placements
    for a in &small {
        for s in &small {
            for o in &small {
                for src in ["e1", "e2", "script"] {
                    let placed = [a, s, o].iter().filter(|l| !l.is_empty()).count();
                    if tier == Tier::Quick && ((src != "e1" && (a.len() + s.len() + o.len()) > 1) || (placed == 3 && !(a.len() == 2 && s.len() == 1 && o.len() == 1))) {
                        continue;
                    }
                    add(true, a, s, o, src);
                }
            }
        }
    }
    // the sibling of the failing branch is a parked `else` branch
    let n = v.len();
    for i in 0..n {
        let sc = v[i].clone();
        if sc.branches && sc.on_act.len() + sc.on_step.len() + sc.on_outer.len() <= tier.pick(1, 2) && matches!(sc.source, "e1" | "script" | "e3") {
            let mut e = sc.clone();
            e.sibling_else = true;
            e.id = format!("{}/else-sibling", sc.id);
            v.push(e);
        }
    }
    v
}

fn catches_yml(l: &[CatchSpec], ind: &str, tag: &str) -> String {
    if l.is_empty() {
        return String::new();
    }
    let mut s = format!("{ind}catches:\n");
    for (i, (code, body)) in l.iter().enumerate() {
        let sid = format!("c{tag}{i}");
        // the keys of this list item
        let mut keys: Vec<String> = vec![];
        if let Some(c) = code {
            keys.push(format!("on: {c}"));
        }
        match body {
            0 => keys.push("steps: []".into()),
            1 => keys.push(format!("steps:\n{ind}      - id: {sid}\n{ind}        acts:\n{ind}          - uses: acts.core.msg\n{ind}            key: m{sid}")),
            3 => keys.push(format!("steps:\n{ind}      - id: {sid}\n{ind}        acts:\n{ind}          - uses: acts.core.irq\n{ind}            key: x{sid}\n{ind}            catches:\n{ind}              - steps:\n{ind}                  - id: n{sid}\n{ind}                    acts:\n{ind}                      - uses: acts.core.msg\n{ind}                        key: nm{sid}")),
            _ => keys.push(format!("steps:\n{ind}      - id: {sid}\n{ind}        acts:\n{ind}          - uses: acts.core.irq\n{ind}            key: q{sid}")),
        }
        for (k, line) in keys.iter().enumerate() {
            s += &format!("{ind}  {} {line}\n", if k == 0 { "-" } else { " " });
        }
    }
    s
}

pub fn model(sc: &Scn) -> String {
    let failing = match sc.source {
        "script" => "uses: acts.transform.code\n{I}key: a1\n{I}params: \"throw new Error('boom')\"\n",
        "package" => "uses: no.such.package\n{I}key: a1\n",
        _ => "uses: acts.core.irq\n{I}key: a1\n",
    };
    if sc.branches {
        let i = "                ";
        let act = failing.replace("{I}", i);
        format!(
            "id: m6\nsteps:\n  - id: s1\n{}    branches:\n      - id: b1\n        if: \"true\"\n        steps:\n          - id: s11\n{}            acts:\n              - {act}{}              - uses: acts.core.irq\n                key: a2\n      - id: b2\n        {}\n        steps:\n          - id: s21\n            acts:\n              - uses: acts.core.irq\n                key: p\n  - id: s2\n    acts:\n      - uses: acts.core.msg\n        key: after\n",
            catches_yml(&sc.on_outer, "    ", "o"),
            catches_yml(&sc.on_step, "            ", "s"),
            catches_yml(&sc.on_act, "                ", "a"),
            if sc.sibling_else { "else: true" } else { "if: \"true\"" },
        )
    } else {
        let i = "        ";
        let act = failing.replace("{I}", i);
        format!(
            "id: m6\nsteps:\n  - id: s1\n{}    acts:\n      - {act}{}      - uses: acts.core.irq\n        key: a2\n  - id: s2\n    acts:\n      - uses: acts.core.msg\n        key: after\n",
            catches_yml(&sc.on_step, "    ", "s"),
            catches_yml(&sc.on_act, "        ", "a"),
        )
    }
}

/// the error code the source raises
fn code_of(sc: &Scn) -> &'static str {
    match sc.source {
        "script" | "package" => "",
        c => c,
    }
}

/// reference (B.3): who catches — ("act" | "step" | "outer", index in its list) or None
fn catcher(sc: &Scn) -> Option<(&'static str, usize)> {
    let code = code_of(sc);
    let find = |l: &[CatchSpec]| l.iter().position(|(c, _)| c.is_none() || *c == Some(code));
    // an act that never got as far as registering its catches (unknown package fails in init after
    // the catches are registered; a throwing script fails in run): both have their catches
    if let Some(i) = find(&sc.on_act) {
        return Some(("act", i));
    }
    if let Some(i) = find(&sc.on_step) {
        return Some(("step", i));
    }
    if sc.branches {
        if let Some(i) = find(&sc.on_outer) {
            return Some(("outer", i));
        }
    }
    None
}

pub fn run_one(ch: &mut Chooser, sc: &Scn, want_log: bool) -> RunObs {
    let mut sess = Session::new(&Cfg::keep());
    sess.deploy(&model(sc));
    let _ = sess.start("m6", &vars_of(&json!({"pid": "p1"})));
    let mut states = vec![];
    let mut steps = 0;
    let mut refused: std::collections::BTreeSet<String> = Default::default();
    loop {
        let acts = sess.enabled();
        let open: Vec<acts::Message> = sess.open_irqs(Some("p1")).into_iter().filter(|m| !refused.contains(&m.tid)).collect();
        let n = acts.len() + open.len();
        if n == 0 {
            break;
        }
        steps += 1;
        if steps > 300 {
            ch.horizon_hit = true;
            break;
        }
        states.push(crate::amode::fingerprint(&sess, &acts));
        let c = ch.choose(n);
        if c < acts.len() {
            ch.label(|| acts[c].label());
            sess.run(acts[c].seq);
        } else {
            let m = &open[c - acts.len()];
            let (kind, opts) = if m.key == "a1" && !matches!(sc.source, "script" | "package") {
                ("error", json!({"ecode": sc.source, "message": "it failed"}))
            } else if m.key.starts_with('x') {
                // the interrupt inside the catch steps fails too; its own catch-all takes that
                ("error", json!({"ecode": "e9", "message": "the repair failed"}))
            } else {
                ("complete", json!({}))
            };
            ch.label(|| format!("client {kind} {}({})", m.tid, m.key));
            // every interrupt is answered once (an act that caught its error stays open to the eye of
            // the client: it reports nothing until it ends)
            let _ = sess.act(kind, "p1", &m.tid, &vars_of(&opts));
            refused.insert(m.tid.clone());
        }
    }
    // ---- oracle ----
    let trace = sess.w.trace_snapshot();
    let msgs = sess.messages();
    let mut viols: Vec<(String, String)> = vec![];
    let mut push = |sig: String, what: String| {
        if !viols.iter().any(|(s, _)| *s == sig) {
            viols.push((sig, what));
        }
    };
    let horizon = ch.horizon_hit;
    let completes: Vec<&acts::Message> = trace.iter().filter_map(|t| match t { Tr::Emit { channel: "complete", msg } => Some(msg), _ => None }).collect();
    let errors: Vec<&acts::Message> = trace.iter().filter_map(|t| match t { Tr::Emit { channel: "error", msg } => Some(msg), _ => None }).collect();
    // instances of every catch step node
    let mut inst: BTreeMap<String, std::collections::BTreeSet<String>> = BTreeMap::new();
    let mut final_state: BTreeMap<String, String> = BTreeMap::new(); // nid/key -> last state
    for t in &trace {
        if let Tr::TaskEvent { tid, nid, kind, state, key, .. } = t {
            if kind == "step" && (nid.starts_with('c') || nid.starts_with("nc")) {
                inst.entry(nid.clone()).or_default().insert(tid.clone());
            }
            final_state.insert(if kind == "act" { key.clone() } else { nid.clone() }, state.clone());
        }
        if let Tr::StateWrite { nid, kind, new, .. } = t {
            if kind != "act" {
                final_state.insert(nid.clone(), new.clone());
            }
        }
    }
    let who = catcher(sc);
    let lists: [(&str, &Vec<CatchSpec>, &str); 3] = [("act", &sc.on_act, "a"), ("step", &sc.on_step, "s"), ("outer", &sc.on_outer, "o")];
    // the steps of the first matching catch run exactly once, no other catch step runs
    for (place, list, tag) in lists {
        for (i, (_, body)) in list.iter().enumerate() {
            if *body == 0 {
                continue;
            }
            let sid = format!("c{tag}{i}");
            let n = inst.get(&sid).map(|s| s.len()).unwrap_or(0);
            let want = if who == Some((place, i)) { 1 } else { 0 };
            if n != want && !(horizon && n < want) {
                push(
                    format!("catch-steps/{place}/{}-instead-of-{want}", n),
                    format!("the steps of catch {i} ({:?}) on the {place} ran {n} time(s), expected {want} (error code '{}', catcher {who:?})", list[i].0, code_of(sc)),
                );
            }
            if *body == 3 {
                let n = inst.get(&format!("n{sid}")).map(|s| s.len()).unwrap_or(0);
                if n != want && !(horizon && n < want) {
                    push(
                        format!("nested-catch-steps/{place}/{}-instead-of-{want}", n),
                        format!("the act inside the steps of catch {i} on the {place} failed and has a catch-all of its own: its steps ran {n} time(s), expected {want}"),
                    );
                }
            }
        }
    }
    if !horizon {
        match who {
            None => {
                // nobody catches: exactly one error event with the original code and message, no complete event
                if errors.len() != 1 || !completes.is_empty() {
                    push(
                        format!("uncaught/events/{}-error-{}-complete", errors.len(), completes.len()),
                        format!("an uncaught error must end the process with exactly one error event: {} error and {} complete events", errors.len(), completes.len()),
                    );
                }
                if let Some(e) = errors.first() {
                    let inp = serde_json::to_value(&e.inputs).unwrap_or_default();
                    if !matches!(sc.source, "script" | "package") && (inp["ecode"] != json!(sc.source) || inp["message"] != json!("it failed")) {
                        push("uncaught/code-lost".into(), format!("the error event carries {} / {} instead of {} / 'it failed'", inp["ecode"], inp["message"], sc.source));
                    }
                    if sc.source == "script" && !inp["message"].as_str().unwrap_or("").contains("boom") {
                        push("uncaught/message-lost".into(), format!("the error event of a script that threw 'boom' carries the message {}", inp["message"]));
                    }
                }
                // the act and every enclosing task are in error
                let spine: Vec<&str> = if sc.branches { vec!["a1", "s11", "b1", "s1", "m6"] } else { vec!["a1", "s1", "m6"] };
                for n in spine {
                    if final_state.get(n).map(|s| s != "error").unwrap_or(true) {
                        push(format!("uncaught/not-marked/{}", n), format!("{n} is {:?} after an uncaught error", final_state.get(n)));
                    }
                }
                if msgs.iter().any(|m| m.key == "after") {
                    push("uncaught/flow-continued".into(), "the step after the failed one ran although nobody caught the error".into());
                }
            }
            Some((place, _)) => {
                if !errors.is_empty() || completes.len() != 1 {
                    push(
                        format!("caught/events/{}-error-{}-complete", errors.len(), completes.len()),
                        format!("an error taken by a catch on the {place} must not fail the process: {} error and {} complete events", errors.len(), completes.len()),
                    );
                }
                let catching = match (place, sc.branches) {
                    ("act", _) => "a1",
                    ("step", true) => "s11",
                    ("step", false) => "s1",
                    _ => "s1",
                };
                if final_state.get(catching).map(|s| s != "completed").unwrap_or(true) {
                    push(format!("caught/catcher-not-completed/{place}"), format!("the catching {catching} ends {:?}", final_state.get(catching)));
                }
                // tasks below the catcher stay in error
                let below: Vec<&str> = match (place, sc.branches) {
                    ("act", _) => vec![],
                    ("step", _) => vec!["a1"],
                    _ => vec!["a1", "s11", "b1"],
                };
                for n in below {
                    if final_state.get(n).map(|s| s != "error").unwrap_or(true) {
                        push(format!("caught/below-not-error/{n}"), format!("{n} below the catching {catching} ends {:?}", final_state.get(n)));
                    }
                }
                // the flow continues with the successor of the catcher
                let a2_ran = msgs.iter().any(|m| m.key == "a2");
                if place == "act" && !a2_ran {
                    push("caught/successor-missing/act".into(), "the act after the catching act never ran".into());
                }
                if place != "act" && a2_ran {
                    push(format!("caught/rest-of-step-ran/{place}"), "the remaining act of the failed step ran although a step caught the error".into());
                }
                if !msgs.iter().any(|m| m.key == "after") {
                    push(format!("caught/successor-missing/{place}"), "the step after the catching one never ran".into());
                }
            }
        }
    }
    // reported errors: one error message per task that ended in error, none for the catcher
    let mut err_msgs: BTreeMap<String, usize> = BTreeMap::new();
    for m in &msgs {
        if m.state == acts::MessageState::Error {
            *err_msgs.entry(if m.r#type == "act" { m.key.clone() } else { m.nid.clone() }).or_default() += 1;
        }
    }
    for (k, n) in &err_msgs {
        if *n > 1 {
            push(format!("error-reported-twice/{k}"), format!("{k} reported its error {n} times"));
        }
    }
    let _ = is_terminal_state;
    let log = trace_log(&trace);
    let outcome = format!("{}e{}c {:?}", errors.len(), completes.len(), inst.iter().map(|(k, v)| format!("{k}x{}", v.len())).collect::<Vec<_>>());
    RunObs {
        digest: digest(&log, &format!("{:?}", sess.results)),
        states,
        outcome,
        viols,
        detail: String::new(),
        log: if want_log { log } else { vec![] },
        machinery: sess.machinery_errors(),
    }
}

pub struct C06;

impl Check for C06 {
    fn info(&self, tier: Tier) -> CheckInfo {
        CheckInfo {
            id: "C06",
            level: "model_checking",
            rule: "catch lists = every sequence of <= 2 catches over {on e1, on e2, catch-all} x body {none, message step, interrupt step}, placed on the failing act, on the step around it and on the outer step of a two-branch spine (one placement over all 64 lists with the others empty; all three placements over a set of five lists); a fourth body kind: an interrupt step whose act has a catch-all of its own and is failed by the client (a catch nested in catch steps); variants whose sibling branch is a parked else branch; error sources: client error e1 / e2 / e3 / e10 with a message, a throwing script, an unknown package; the error is raised while a second interrupt is open in the sibling branch; every order of queued tasks and client answers (A-mode exhaustive); reference: innermost list with a match wins, first match in that list, its steps run exactly once, the catcher completes and its successor runs, tasks below stay in error; no match: the spine is marked error and exactly one error event carries the original code and message".into(),
            assumptions: vec!["activities are atomic".into()],
            budget_s: tier.pick(55, 900),
            exhaustive_when_uncapped: true,
            bounds: json!({"catches_per_list": 2, "levels": 3}),
        }
    }
    fn items(&self, tier: Tier) -> Vec<Value> {
        scenarios(tier).iter().enumerate().map(|(i, s)| json!({"id": s.id, "scenario": s.id, "scn": i, "prefix": [], "single": false})).collect()
    }
    fn run_item(&self, tier: Tier, item: &Value, out: &mut ItemOut) {
        let i = item["scn"].as_u64().unwrap() as usize;
        let s = scenarios(tier).swap_remove(i);
        let desc = json!({"model": model(&s), "error": s.source, "predicted_catcher": format!("{:?}", catcher(&s))});
        let prefix: Vec<u32> = item["prefix"].as_array().unwrap().iter().map(|x| x.as_u64().unwrap() as u32).collect();
        let single = item["single"].as_bool().unwrap();
        explore_scenario_from(out, "C06", &s.id, &desc, None, 200_000, i % 50 == 0 && prefix.is_empty(), &prefix, single, spill_after(), &|ch, log| run_one(ch, &s, log));
        if prefix.is_empty() && catcher(&s).is_some() {
            out.count("scenarios_with_a_catcher", 1);
        }
    }
}
