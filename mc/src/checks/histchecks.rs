//! C02, C03, C05 (admission part), C08: monitors riding on the history exploration.
use super::common::*;
use super::hist::*;
use super::monitors;
use crate::explore::Chooser;
use crate::report::*;
use crate::wgen::{W1, W2, W3, W3B, W4, W6, W7, WD1, WD2, WE1, WE2};
use crate::world::Cfg;
use serde_json::{Value, json};
use std::collections::BTreeMap;

pub const W2N: &str = "id: w2n\nsteps:\n  - id: s1\n    branches:\n      - id: b1\n        if: \"true\"\n        steps:\n          - id: s11\n            acts:\n              - uses: acts.core.irq\n                key: a1\n      - id: b2\n        if: \"true\"\n        steps:\n          - id: s21\n            branches:\n              - id: b21\n                if: \"true\"\n                steps:\n                  - id: s211\n                    acts:\n                      - uses: acts.core.irq\n                        key: a2\n  - id: s2\n";
pub const W5: &str = "id: w5\nsteps:\n  - id: s1\n    acts:\n      - uses: acts.core.irq\n        key: a1\n        outputs:\n          x:\n          y:\n  - id: s2\n    acts:\n      - uses: acts.core.irq\n        key: a2\n";
/// a parallel block with a catch-all without steps on the block act itself: two children can fail one after the other
pub const W9A: &str = "id: w9a\nsteps:\n  - id: s1\n    acts:\n      - uses: acts.core.block\n        key: blk\n        catches:\n          - steps: []\n        params:\n          mode: parallel\n          acts:\n            - uses: acts.core.irq\n              key: x\n            - uses: acts.core.irq\n              key: y\n  - id: s2\n    acts:\n      - uses: acts.core.irq\n        key: z\n";
/// the same with the empty catch on the step around the block
pub const W9B: &str = "id: w9b\nsteps:\n  - id: s1\n    catches:\n      - steps: []\n    acts:\n      - uses: acts.core.block\n        key: blk\n        params:\n          mode: parallel\n          acts:\n            - uses: acts.core.irq\n              key: x\n            - uses: acts.core.irq\n              key: y\n  - id: s2\n    acts:\n      - uses: acts.core.irq\n        key: z\n";
/// an act whose step is followed by a step that fans out into two parallel branches (for cancel)
/// an interrupt act with a timeout rule whose steps hold an interrupt of their own; the scenario's prelude
/// answers a1 and lets the rule fire, so that the histories start with `at` open beneath the open act a2
pub const WT: &str = "id: wt\nsteps:\n  - id: s1\n    acts:\n      - uses: acts.core.irq\n        key: a1\n  - id: s2\n    acts:\n      - uses: acts.core.irq\n        key: a2\n        timeout:\n          - on: 1s\n            steps:\n              - id: ts1\n                acts:\n                  - uses: acts.core.irq\n                    key: at\n  - id: s3\n";
pub const W10: &str = "id: w10\nsteps:\n  - id: s1\n    acts:\n      - uses: acts.core.irq\n        key: a1\n  - id: s2\n    branches:\n      - id: b1\n        if: \"true\"\n        steps:\n          - id: s21\n            acts:\n              - uses: acts.core.irq\n                key: a2\n      - id: b2\n        if: \"true\"\n        steps:\n          - id: s22\n            acts:\n              - uses: acts.core.irq\n                key: a3\n  - id: s3\n";
/// branches without steps (a taken one, a needs branch and an else branch) before a step with an open act
pub const W8: &str = "id: w8\nsteps:\n  - id: s1\n    branches:\n      - id: b0\n        else: true\n      - id: b1\n        if: \"true\"\n        steps:\n          - id: s11\n            acts:\n              - uses: acts.core.irq\n                key: a1\n      - id: b2\n        needs: [b1]\n      - id: b3\n        if: \"true\"\n  - id: s2\n    acts:\n      - uses: acts.core.irq\n        key: a2\n";
/// rework loop: the guarded branch increments `a` and jumps back to the first step
pub const WJ: &str = "id: wj\ninputs:\n  a: 0\nsteps:\n  - id: s1\n    acts:\n      - uses: acts.core.irq\n        key: a1\n  - id: s2\n    branches:\n      - id: b1\n        if: a < 1\n        steps:\n          - id: s21\n            next: s1\n            acts:\n              - uses: acts.transform.set\n                params:\n                  a: '{{ a + 1 }}'\n      - id: b2\n        else: true\n        steps:\n          - id: s22\n  - id: s3\n";
/// two irq acts in one branch, one in the sibling
pub const W2B: &str = "id: w2b\nsteps:\n  - id: s1\n    branches:\n      - id: b1\n        if: \"true\"\n        steps:\n          - id: s11\n            acts:\n              - uses: acts.core.irq\n                key: a1\n              - uses: acts.core.irq\n                key: a3\n      - id: b2\n        if: \"true\"\n        steps:\n          - id: s21\n            acts:\n              - uses: acts.core.irq\n                key: a2\n  - id: s2\n    acts:\n      - uses: acts.core.irq\n        key: a4\n";

#[derive(Clone)]
pub struct HScn {
    pub scn: Scn,
    pub cfg: HistCfg,
    pub bound: Option<usize>,
    pub cap: u64,
    /// number of subtrees the search of this scenario is split into
    pub shards: usize,
    pub outputs: BTreeMap<String, Vec<String>>,
}

fn mid_of(yml: &str) -> String {
    yml.lines().next().unwrap().trim_start_matches("id:").trim().to_string()
}

fn hscn(name: &str, yml: &str, keep: bool, cfg: HistCfg, bound: Option<usize>, shards: usize) -> HScn {
    let mid = mid_of(yml);
    let mut scn = Scn::new(
        format!("{name}/{}{}/L{}/d{}", mid, if keep { "+keep" } else { "" }, cfg.max_ops, bound.map(|b| b.to_string()).unwrap_or("inf".into())),
        yml,
        &mid,
        json!({"pid": "p1"}),
    );
    scn.cfg = if keep { Cfg::keep() } else { Cfg::default() };
    scn.want_dumps = crate::world::DUMP_LIGHT;
    HScn {
        scn,
        cfg,
        bound,
        cap: 3_000_000,
        shards,
        outputs: BTreeMap::new(),
    }
}

pub fn hscn_pub(name: &str, yml: &str, keep: bool, cfg: HistCfg, bound: Option<usize>, shards: usize) -> HScn {
    hscn(name, yml, keep, cfg, bound, shards)
}

fn full_cfg(max_ops: usize) -> HistCfg {
    HistCfg {
        max_ops,
        actions: default_actions(),
        odd_targets: false,
        terminal_targets: true,
        back: true,
        push: false,
    }
}

pub fn scenarios(prop: &str, tier: Tier) -> Vec<HScn> {
    let mut v = scenarios_of(prop, tier);
    for h in v.iter_mut() {
        match prop {
            "C02" => h.scn.want_dumps = crate::world::DUMP_ON_ERROR,
            "C03" => h.scn.want_dumps = crate::world::DUMP_NONE,
            "C05" => {
                h.scn.want_dumps = crate::world::DUMP_NONE;
                h.scn.full_views = true;
            }
            "C11" => {
                h.scn.want_dumps = crate::world::DUMP_NONE;
                h.scn.full_views = true;
                h.scn.capture_store = true;
            }
            _ => h.scn.want_dumps = crate::world::DUMP_NONE,
        }
    }
    v
}

fn scenarios_of(prop: &str, tier: Tier) -> Vec<HScn> {
    let mut v = vec![];
    let q = tier == Tier::Quick;
    match prop {
        "C02" | "C08" => {
            for (y, l_quick, l_thorough) in [(W1, 2, 3), (W2, 2, 3), (W3, 2, 3), (W4, 2, 3), (W3B, 2, 3), (W6, 2, 3), (W9A, 2, 3), (W9B, 2, 3), (W7, 2, 2), (W8, 2, 2)] {
                let l = if q { l_quick } else { l_thorough };
                let mut c = full_cfg(l);
                if y == W3B {
                    // every code that some catch of the model names
                    for a in c.actions.iter_mut() {
                        if a.0 == "error" {
                            a.1 = vec![json!({"ecode": "e1"}), json!({"ecode": "e2"}), json!({"ecode": "e3"}), json!({"ecode": "e4"})];
                        }
                    }
                }
                // three actions on the two workflows with the widest histories: at quiescent points only
                let d = if !q && (y == W2 || y == W4) { 0 } else { 1 };
                v.push(hscn("hist", y, false, c, Some(d), 48));
                if !q {
                    v.push(hscn("hist", y, true, full_cfg(2), Some(2), 48));
                }
            }
            if q {
                // the sequential workflow one action deeper, quiescent points only
                v.push(hscn("hist", W1, false, full_cfg(3), Some(0), 48));
            }
        }
        "C03" => {
            // (workflow, keep_processes, deviation bound in the quick tier)
            let set: [(&str, bool, usize); 17] = [
                (W10, false, 0),
                (W10, true, 0),
                (W8, false, 1),
                (W8, true, 0),
                (W9B, false, 0),
                (W9B, true, 0),
                (W2, false, 1),
                (W4, false, 1),
                (W2N, false, 0),
                (W2B, false, 0),
                (W2, true, 0),
                (W4, true, 0),
                (W2N, true, 0),
                (W2B, true, 0),
                (W6, false, 0),
                (W6, true, 0),
                (W7, false, 0),
            ];
            for (y, keep, dq) in set {
                let mut c = full_cfg(2);
                // cancel is aimed at acts that are already completed
                c.terminal_targets = keep || y == W7 || y == W10;
                v.push(hscn("par", y, keep, c, Some(if q { dq } else { 1 }), 48));
                if !q {
                    let mut c = full_cfg(3);
                    c.terminal_targets = false;
                    // three actions with a racing deviation only on the small workflows
                    let small = y == W6 || y == W7 || y == W8 || y == W9B || y == W10;
                    v.push(hscn("par", y, keep, c, Some(if keep || !small { 0 } else { 1 }), 48));
                }
            }
            if !q {
                v.push(hscn("par", W2, false, full_cfg(2), Some(3), 48));
            }
            // a fired timeout rule: its step and interrupt are open beneath the open act when the history begins
            for keep in [false, true] {
                let mut c = full_cfg(2);
                c.terminal_targets = true;
                let mut h = hscn("timed", WT, keep, c, Some(if q { 0 } else { 1 }), 16);
                h.scn.prelude = vec![("complete".into(), "a1".into()), ("tick".into(), "1100".into())];
                v.push(h);
            }
            // a backward `next` jump out of a guarded branch (one round of rework)
            for keep in [false, true] {
                let mut c = full_cfg(if q { 2 } else { 3 });
                c.terminal_targets = keep;
                v.push(hscn("jump", WJ, keep, c, Some(if q { 0 } else { 1 }), 16));
            }
        }
        "C11" => {
            for (i, y) in [W1, W2, W3, W6, W4, W7, WE1, WE2, WD1, WD2].into_iter().enumerate() {
                for sqlite in [false, true] {
                    for keep in [false, true] {
                        if q && sqlite && keep {
                            continue;
                        }
                        let mut c = full_cfg(2);
                        c.terminal_targets = false;
                        if y == WD2 {
                            // options that write variables of two different enclosing tasks at once
                            for a in c.actions.iter_mut() {
                                if a.0 == "complete" {
                                    a.1 = vec![json!({}), json!({"a": 5, "b": 7})];
                                }
                            }
                        }
                        let d = if q { if sqlite || i >= 4 { 0 } else { 1 } } else { 1 };
                        let mut h = hscn(if sqlite { "image-sqlite" } else { "image" }, y, keep, c, Some(d), 32);
                        if sqlite {
                            h.scn.cfg.sqlite = Some("@scratch".into());
                        }
                        v.push(h);
                    }
                }
            }
        }
        "C05" => {
            let mut acts = default_actions();
            acts.push(("set_process_vars", vec![json!({"v": 1})]));
            for y in [W1, W2] {
                for keep in [false, true] {
                    let c = HistCfg {
                        max_ops: 2,
                        actions: acts.clone(),
                        odd_targets: true,
                        terminal_targets: true,
                        back: true,
                        push: true,
                    };
                    v.push(hscn("admit", y, keep, c, Some(if q { 0 } else { 1 }), 48));
                }
            }
            // declared outputs: option maps {none, complete, one missing, extra keys}
            let optmaps = vec![json!({}), json!({"x": 1, "y": "s"}), json!({"x": 1}), json!({"x": 1, "y": 2, "z": 3, "__p": 4})];
            let mut acts5: Vec<(&'static str, Vec<Value>)> = vec![];
            for k in ["complete", "submit", "skip", "remove", "abort", "back"] {
                acts5.push((k, optmaps.clone()));
            }
            acts5.push((
                "error",
                vec![json!({"ecode": "e1"}), json!({"ecode": "e1", "x": 1, "y": 2}), json!({"x": 1, "y": 2})],
            ));
            let c = HistCfg {
                max_ops: 2,
                actions: acts5,
                odd_targets: false,
                terminal_targets: true,
                back: false,
                push: false,
            };
            let mut h = hscn("outputs", W5, true, c, Some(0), 48);
            h.outputs.insert("a1".into(), vec!["x".into(), "y".into()]);
            v.push(h);
        }
        _ => {}
    }
    v
}

pub struct HistCheck {
    pub prop: &'static str,
}

fn judge(prop: &str, h: &HExec, hs: &HScn) -> monitors::V {
    match prop {
        "C02" => monitors::lifecycle(&h.e, &h.ops),
        "C03" => monitors::completion(&h.e, &h.ops),
        "C08" => monitors::messages(&h.e, &h.ops),
        "C05" => monitors::admission(&h.e, &h.ops, &hs.outputs),
        "C11" => monitors::store_image(&h.e),
        _ => vec![],
    }
}

pub fn run_one(prop: &str, ch: &mut Chooser, hs: &HScn, want_log: bool) -> RunObs {
    let h = run_history(ch, &hs.scn, &hs.cfg);
    let viols = judge(prop, &h, hs);
    let outcome = format!("{}|{}", history_name(&h.ops), h.e.outcome_class());
    let mut o = h.e.to_obs(viols, outcome, want_log);
    o.detail = h.ops.iter().map(|o| format!("{}({})@{}{}", o.spec.kind, o.spec.nid, o.spec.target_class, if o.quiescent { "" } else { "!" })).collect::<Vec<_>>().join(",");
    if want_log {
        o.log.push(format!("history: {}", h.ops.iter().map(|o| format!("{} => {:?}", o.spec.label(), o.result)).collect::<Vec<_>>().join("; ")));
    }
    o
}

impl Check for HistCheck {
    fn info(&self, tier: Tier) -> CheckInfo {
        let (rule, budget) = match self.prop {
            "C02" => ("base workflows W1-W4 x every sequence of <= L client actions from {complete, submit, skip, remove, abort, error(e1|e2), cancel, back(to every step)} aimed at every interrupt act that exists at that moment (open or already terminal), issued at any quiescent point or (one deviation) racing in-flight work; the oracle follows the reported state sequence of every task", tier.pick(50, 1200)),
            "C03" => ("workflows with two concurrently open regions (two branches, parallel act, nested branch, two acts in a branch, sibling acts of a block, parked needs / else branches) and a rework loop with a backward `next` jump x every sequence of <= L client actions on their acts x both keep_processes settings; oracle: containers complete only over terminal subtrees, process state mirrors the root, one start and one terminal event, nothing open or acted on after a non-error terminal event", tier.pick(50, 1200)),
            "C11" => ("workflows W1, W2, W3, W4, W6, W7 and four data workflows (env declared in the model, env written by a script, a variable that propagates to the root, action options that write variables of two enclosing tasks) x every sequence of <= 2 client actions x both keep_processes settings x both stores; at every quiescent point of every execution the live process (full dump) is compared with the proc row and the task rows: tid set, per task state, prev, data, err, start/end time, per process state, err, env", tier.pick(50, 900)),
            "C08" => ("the executions of the C02 history scenarios; oracle: per task at most one created and one terminal message in that order, existence per node kind, every message field equal to the task at generation time, unique ids, parent announced before child", tier.pick(50, 1200)),
            _ => ("admission matrix: from every state reachable by a prefix history, each of the ten action kinds x targets {open act, terminal act, step, branch, root, unknown tid, unknown pid} x option maps (none / all declared outputs / one missing / extra keys); every accepted call must satisfy the admission rule, every rejected terminal-style call returns Err and leaves dump and message stream unchanged", tier.pick(50, 900)),
        };
        CheckInfo {
            id: self.prop,
            level: "model_checking",
            rule: rule.into(),
            assumptions: vec![
                "activities are atomic (A-mode); thread-level preemption inside an action is explored by the T-mode part of C05".into(),
                "client action histories are bounded by L; deviation bound d counts non-FIFO engine choices and actions injected before quiescence".into(),
            ],
            budget_s: budget,
            exhaustive_when_uncapped: true,
            bounds: json!({"history_length": tier.pick("2 (3 on W1 at quiescent points)", "3"), "deviations": tier.pick("<=1", "<=1 (<=2 with keep_processes)")}),
        }
    }
    fn items(&self, tier: Tier) -> Vec<Value> {
        let mut v = vec![];
        for (si, h) in scenarios(self.prop, tier).iter().enumerate() {
            let prop = self.prop;
            let (singles, roots) = crate::explore::split_frontier(h.bound, h.shards, |ch| {
                run_one(prop, ch, h, false);
            });
            for (k, p) in singles.iter().enumerate() {
                v.push(json!({"id": format!("{}#s{}", h.scn.id, k), "scenario": h.scn.id, "scn": si, "prefix": p, "single": true}));
            }
            for (k, p) in roots.iter().enumerate() {
                v.push(json!({"id": format!("{}#{}", h.scn.id, k), "scenario": h.scn.id, "scn": si, "prefix": p, "single": false}));
            }
        }
        v
    }
    fn run_item(&self, tier: Tier, item: &Value, out: &mut ItemOut) {
        let si = item["scn"].as_u64().unwrap() as usize;
        let h = scenarios(self.prop, tier).swap_remove(si);
        let prefix: Vec<u32> = item["prefix"].as_array().unwrap().iter().map(|x| x.as_u64().unwrap() as u32).collect();
        let single = item["single"].as_bool().unwrap();
        let desc = json!({"scenario": h.scn.desc(), "history_length": h.cfg.max_ops, "actions": h.cfg.actions.iter().map(|a| a.0).collect::<Vec<_>>()});
        let prop = self.prop;
        let st = explore_scenario_from(out, prop, &h.scn.id, &desc, h.bound, h.cap, prefix.is_empty(), &prefix, single, spill_after(), &|ch, log| {
            run_one(prop, ch, &h, log)
        });
        out.count(&format!("executions[{}]", h.scn.id), st.executions as i64);
    }
}

/// C05 = admission matrix (history exploration) + races (T-mode)
pub struct C05;

impl Check for C05 {
    fn info(&self, tier: Tier) -> CheckInfo {
        let mut i = HistCheck { prop: "C05" }.info(tier);
        i.rule += "; races: 2-3 client threads issue the same action (complete, submit, skip, remove, abort, error, back) on one open act of W1 and W2 as real OS threads, every non-preemptive schedule plus at most k preemptions at the engine's task-state / task-set / cache accesses";
        i.bounds = json!({"history_length": 2, "deviations": tier.pick("0 (matrix)", "<=1 (matrix)"), "race_threads": tier.pick("2", "2-3"), "preemption_bound": tier.pick(1, 2)});
        i
    }
    fn items(&self, tier: Tier) -> Vec<Value> {
        let mut v = HistCheck { prop: "C05" }.items(tier);
        v.extend(super::c05race::items(tier));
        v
    }
    fn run_item(&self, tier: Tier, item: &Value, out: &mut ItemOut) {
        if item.get("race").is_some() {
            super::c05race::run_item(tier, item, out);
        } else {
            HistCheck { prop: "C05" }.run_item(tier, item, out);
        }
    }
}
