//! C12 — Restart / reload transparency: differential. Run A is never interrupted; run B makes
//! the same choices up to a quiescent point, then drops the process from the cache (in-memory
//! store) or starts a new engine on the same SQLite file, then continues with the same client
//! operations. B's further messages (ids and times erased), task outcomes and terminal outputs
//! must equal A's. Every quiescent point of every run is a crash point (pairs in thorough).
use super::common::vars_of;
use crate::report::*;
use crate::wgen::*;
use crate::world::{Cfg, Session, Tr};
use serde_json::{Value, json};
use std::collections::BTreeMap;

pub const WSEQ: &str = "id: wseq\nsteps:\n  - id: s1\n    acts:\n      - uses: acts.core.sequence\n        key: gen\n        params:\n          in: [\"u1\", \"u2\"]\n          acts:\n            - uses: acts.core.irq\n              key: k\n  - id: s2\n    acts:\n      - uses: acts.core.irq\n        key: z\n";
pub const WBLK: &str = "id: wblk\nsteps:\n  - id: s1\n    acts:\n      - uses: acts.core.block\n        key: blk\n        params:\n          mode: sequence\n          acts:\n            - uses: acts.core.irq\n              key: x\n            - uses: acts.core.irq\n              key: y\n  - id: s2\n";
pub const WHOOK: &str = "id: whook\nsetup:\n  - uses: acts.core.msg\n    on: step\n    key: stepdone\nsteps:\n  - id: s1\n    catches:\n      - on: e1\n        steps:\n          - id: cs\n            acts:\n              - uses: acts.core.irq\n                key: c1\n    acts:\n      - uses: acts.core.irq\n        key: a1\n        timeout:\n          - on: 1s\n            steps:\n              - id: t1\n  - id: s2\n    acts:\n      - uses: acts.core.irq\n        key: a2\n";
pub const WOUT: &str = "id: wout\ninputs:\n  x: 0\noutputs:\n  x:\n  y:\nsteps:\n  - id: s1\n    acts:\n      - uses: acts.core.irq\n        key: a1\n        outputs:\n          y:\n      - uses: acts.transform.set\n        params:\n          x: 7\n      - uses: acts.core.irq\n        key: a2\n  - id: s2\n    if: y > 0\n    acts:\n      - uses: acts.core.irq\n        key: a3\n";

/// one client action writes variables of two enclosing tasks; later acts and the outputs read them
/// env declared in the model and changed by a script, read again after each interrupt
pub const WE3: &str = "id: we3\nenv:\n  e1: 5\nsteps:\n  - id: s1\n    acts:\n      - uses: acts.transform.code\n        params: \"$env.e2 = 7; $env.e1 = 6;\"\n      - uses: acts.core.irq\n        key: a1\n  - id: s2\n    acts:\n      - uses: acts.core.msg\n        key: m1\n        params:\n          v: '{{ [$env.e1, $env.e2] }}'\n      - uses: acts.core.irq\n        key: a2\n  - id: s3\n    acts:\n      - uses: acts.core.msg\n        key: m2\n        params:\n          v: '{{ [$env.e1, $env.e2] }}'\n";
pub const WD3: &str = "id: wd3\ninputs:\n  a: 0\noutputs:\n  a:\n  b:\nsteps:\n  - id: s1\n    inputs:\n      b: 0\n    acts:\n      - uses: acts.core.irq\n        key: a1\n      - uses: acts.core.irq\n        key: a2\n        inputs:\n          seen_a: \"{{ a }}\"\n          seen_b: \"{{ b }}\"\n  - id: s2\n    acts:\n      - uses: acts.core.irq\n        key: a3\n        inputs:\n          seen_a: \"{{ a }}\"\n";

#[derive(Clone, Debug)]
pub struct Scn {
    pub id: String,
    pub yml: &'static str,
    pub sqlite: bool,
    /// (position in the client script, action kind): the action at that position is not `complete`
    pub variant: Option<(usize, &'static str)>,
    /// after the eviction another process runs to its end on the same engine, so that the evicted
    /// one comes back through the cache refill (`restore`), not through the client's action
    pub via_restore: bool,
}

pub fn scenarios(tier: Tier) -> Vec<Scn> {
    let mut v = vec![];
    let models: Vec<(&str, &'static str)> = vec![
        ("w1", W1),
        ("w2", W2),
        ("w3", W3),
        ("w4", W4),
        ("w6", W6),
        ("w7", W7),
        ("we1", WE1),
        ("we2", WE2),
        ("wd1", WD1),
        ("wseq", WSEQ),
        ("wblk", WBLK),
        ("whook", WHOOK),
        ("wout", WOUT),
        ("wd3", WD3),
        ("we3", WE3),
    ];
    for sqlite in [false, true] {
        for (name, yml) in &models {
            let mut variants: Vec<Option<(usize, &'static str)>> = vec![None];
            let npos = if tier == Tier::Quick { 2 } else { 4 };
            for pos in 0..npos {
                for kind in ["error", "skip", "submit"] {
                    if tier == Tier::Quick && sqlite && kind != "error" {
                        continue;
                    }
                    variants.push(Some((pos, kind)));
                }
            }
            for var in variants {
                v.push(Scn {
                    id: format!(
                        "reload/{}/{}/{}",
                        if sqlite { "sqlite-restart" } else { "memory-evict" },
                        name,
                        var.map(|(p, k)| format!("{k}@{p}")).unwrap_or("complete-all".into())
                    ),
                    yml,
                    sqlite,
                    variant: var,
                    via_restore: false,
                });
                if !sqlite && (var.is_none() || matches!(var, Some((_, "error")))) {
                    v.push(Scn {
                        id: format!("reload/memory-restore/{}/{}", name, var.map(|(p, k)| format!("{k}@{p}")).unwrap_or("complete-all".into())),
                        yml,
                        sqlite,
                        variant: var,
                        via_restore: true,
                    });
                }
            }
        }
    }
    v
}

fn mid_of(yml: &str) -> String {
    yml.lines().next().unwrap().trim_start_matches("id:").trim().to_string()
}

#[derive(Default, Debug, Clone, PartialEq)]
pub struct Obs {
    /// canonical messages generated after each client operation, per operation index
    pub msgs: Vec<Vec<String>>,
    pub terminal: Vec<String>,
    pub outcomes: Vec<String>,
    pub results: Vec<String>,
    pub quiescent_points: usize,
}

pub fn erase_ids(s: &str) -> String {
    // task ids, generated node ids and message ids are zero-padded counters of length 8 / 21
    let mut out = String::with_capacity(s.len());
    let b = s.as_bytes();
    let mut i = 0;
    while i < b.len() {
        if b[i].is_ascii_digit() {
            let mut j = i;
            while j < b.len() && b[j].is_ascii_digit() {
                j += 1;
            }
            if j - i == 8 || j - i == 21 {
                out.push_str("<id>");
            } else {
                out.push_str(&s[i..j]);
            }
            i = j;
        } else {
            let c = s[i..].chars().next().unwrap();
            out.push(c);
            i += c.len_utf8();
        }
    }
    out
}

fn canon_msg(m: &acts::Message) -> String {
    let mut inputs = serde_json::to_value(&m.inputs).unwrap_or_default();
    if let Some(o) = inputs.as_object_mut() {
        // the step link carries a task id; the evaluated-params cache is derived
        if let Some(st) = o.get_mut("step").and_then(|s| s.as_object_mut()) {
            st.remove("task_id");
        }
    }
    erase_ids(&format!(
        "{} {} nid={} key={} uses={} tag={} {:?} in={} out={}",
        m.pid,
        m.r#type,
        m.nid,
        m.key,
        m.uses,
        m.tag,
        m.state,
        inputs,
        serde_json::to_value(&m.outputs).unwrap_or_default()
    ))
}

/// one run; `interrupt_at`: quiescent point indices (0-based) at which the process is evicted /
/// the engine restarted before the client continues
pub fn run(sc: &Scn, interrupt_at: &[usize]) -> Obs {
    let cfg = Cfg {
        sqlite: if sc.sqlite { Some("@scratch".into()) } else { None },
        ..Default::default()
    };
    let mut sess = Session::new(&cfg);
    sess.deploy(sc.yml);
    if sc.via_restore {
        // the bystander: starts and ends without a client
        sess.deploy("id: wz\nsteps:\n  - id: z1\n");
    }
    let _ = sess.start(&mid_of(sc.yml), &vars_of(&json!({"pid": "p1", "y": 1})));
    let mut obs = Obs::default();
    let mut op = 0usize;
    let mut mark = 0usize;
    loop {
        sess.drain();
        // messages generated since the previous client operation
        let trace = sess.w.trace_snapshot();
        let mut batch: Vec<String> = vec![];
        for t in &trace[mark..] {
            match t {
                Tr::Emit { channel: "message", msg } if msg.pid == "p1" => batch.push(canon_msg(msg)),
                Tr::Emit { channel, msg } if (*channel == "complete" || *channel == "error") && msg.pid == "p1" => {
                    obs.terminal.push(erase_ids(&format!("{channel} {:?} out={} in={}", msg.state, serde_json::to_value(&msg.outputs).unwrap_or_default(), {
                        let mut i = serde_json::to_value(&msg.inputs).unwrap_or_default();
                        if let Some(o) = i.as_object_mut() {
                            o.retain(|k, _| k == "ecode" || k == "message");
                        }
                        i
                    })));
                }
                _ => {}
            }
        }
        mark = trace.len();
        // messages of concurrently open regions are generated in a fixed order here (FIFO); sort
        // nothing: the order is part of the comparison
        obs.msgs.push(batch);
        let open = sess.open_irqs(Some("p1"));
        if open.is_empty() || op >= 12 {
            break;
        }
        let qidx = obs.quiescent_points;
        obs.quiescent_points += 1;
        if interrupt_at.contains(&qidx) {
            if sc.sqlite {
                sess.restart();
            } else {
                sess.engine.verif().uncache("p1");
                if sc.via_restore {
                    let _ = sess.start("wz", &vars_of(&json!({"pid": format!("z{qidx}")})));
                    sess.drain();
                }
            }
        }
        // the client answers the open interrupt with the smallest key
        let mut open = open;
        open.sort_by(|a, b| (a.key.clone(), a.tid.clone()).cmp(&(b.key.clone(), b.tid.clone())));
        let m = &open[0];
        let kind = match sc.variant {
            Some((p, k)) if p == op => k,
            _ => "complete",
        };
        let opts = match kind {
            "error" => json!({"ecode": "e1", "y": 1}),
            // the options also write the variables a and b wherever a workflow declares them
            _ => json!({"y": 1, "a": 5, "b": 7}),
        };
        let r = sess.act(kind, "p1", &m.tid, &vars_of(&opts));
        obs.results.push(format!("{kind} {} => {}", m.key, if r.is_ok() { "ok".to_string() } else { erase_ids(&format!("{:?}", r)) }));
        op += 1;
    }
    // final task outcomes from the reports (kind, key/nid with ids erased, final state)
    let trace = sess.w.trace_snapshot();
    let mut last: BTreeMap<String, (String, String, String)> = BTreeMap::new();
    for t in &trace {
        if let Tr::TaskEvent {
            pid, tid, nid, kind, state, key, ..
        } = t
        {
            if pid != "p1" {
                continue;
            }
            last.insert(tid.clone(), (kind.clone(), if kind == "act" { key.clone() } else { nid.clone() }, state.clone()));
        }
    }
    let mut oc: Vec<String> = last.values().map(|(k, n, s)| erase_ids(&format!("{k} {n} {s}"))).collect();
    oc.sort();
    obs.outcomes = oc;
    obs
}

fn diff(a: &Obs, b: &Obs, from_op: usize) -> Option<(String, String)> {
    if a.results != b.results {
        let i = a.results.iter().zip(b.results.iter()).position(|(x, y)| x != y).unwrap_or(a.results.len().min(b.results.len()));
        return Some((
            "client-results".into(),
            format!("operation {i}: uninterrupted {:?}, interrupted {:?}", a.results.get(i), b.results.get(i)),
        ));
    }
    for k in from_op..a.msgs.len().max(b.msgs.len()) {
        let (x, y) = (a.msgs.get(k).cloned().unwrap_or_default(), b.msgs.get(k).cloned().unwrap_or_default());
        if x != y {
            let mut xs = x.clone();
            let mut ys = y.clone();
            xs.sort();
            ys.sort();
            let class = if xs == ys {
                "message-order"
            } else if y.len() < x.len() {
                "messages-missing"
            } else if y.len() > x.len() {
                "messages-extra"
            } else {
                "messages-differ"
            };
            let only_a: Vec<&String> = x.iter().filter(|m| !y.contains(m)).collect();
            let only_b: Vec<&String> = y.iter().filter(|m| !x.contains(m)).collect();
            return Some((class.into(), format!("after client operation {k}: only in the uninterrupted run {only_a:?}; only in the interrupted run {only_b:?}")));
        }
    }
    if a.terminal != b.terminal {
        return Some(("terminal-event".into(), format!("uninterrupted {:?}, interrupted {:?}", a.terminal, b.terminal)));
    }
    if a.outcomes != b.outcomes {
        let only_a: Vec<&String> = a.outcomes.iter().filter(|m| !b.outcomes.contains(m)).collect();
        let only_b: Vec<&String> = b.outcomes.iter().filter(|m| !a.outcomes.contains(m)).collect();
        return Some(("task-outcomes".into(), format!("only uninterrupted {only_a:?}; only interrupted {only_b:?}")));
    }
    None
}

pub struct C12;

impl Check for C12 {
    fn info(&self, tier: Tier) -> CheckInfo {
        CheckInfo {
            id: "C12",
            level: "model_checking",
            rule: "14 workflows (sequential, branches, catches, parallel / sequence / block generators, parked branches, env, propagating variables, hooks + catch + timeout, declared outputs with a conditional step, one action writing variables of two enclosing tasks) x client scripts (complete everything; one action replaced by error / skip / submit at each position) x both stores; for every quiescent point q of the uninterrupted run A (in thorough: every non-empty subset of the quiescent points) a run B repeats A's choices up to q, evicts the process from the cache (in-memory store; in a second variant a bystander process then runs to its end, so that the evicted process comes back through the cache refill instead of the client's action) or starts a new engine on the same SQLite file, and continues with the same client operations; B's messages after q (ids, times erased), client results, terminal event and final task outcomes must equal A's".into(),
            assumptions: vec!["FIFO order of queued engine work in both runs (the differential needs one schedule; other schedules are the subject of C01-C08)".into()],
            budget_s: tier.pick(50, 900),
            exhaustive_when_uncapped: true,
            bounds: json!({"crash_points_per_run": tier.pick("every single quiescent point", "every non-empty subset of the quiescent points (runs with more than 8 points: subsets of at most 3)"), "client_operations": 12}),
        }
    }
    fn items(&self, tier: Tier) -> Vec<Value> {
        scenarios(tier).iter().enumerate().map(|(i, s)| json!({"id": s.id, "scn": i})).collect()
    }
    fn run_item(&self, tier: Tier, item: &Value, out: &mut ItemOut) {
        let sc = scenarios(tier).swap_remove(item["scn"].as_u64().unwrap() as usize);
        let a = run(&sc, &[]);
        // determinism of the uninterrupted run (owned nondeterminism)
        let a2 = run(&sc, &[]);
        if a != a2 {
            out.machinery.push(format!("{}: two uninterrupted runs differ", sc.id));
            return;
        }
        out.executions += 2;
        let n = a.quiescent_points;
        let mut points: Vec<Vec<usize>> = (0..n).map(|q| vec![q]).collect();
        if tier == Tier::Thorough {
            // every subset of the quiescent points (the closure of "several in one run"); beyond 8 points
            // the subsets of at most three
            points.clear();
            let full = n <= 8;
            for mask in 1u32..(1u32 << n.min(20)) {
                if full || mask.count_ones() <= 3 {
                    points.push((0..n).filter(|q| mask & (1 << q) != 0).collect());
                }
            }
            points.sort_by_key(|p| (p.len(), p.clone()));
        }
        let mut seen = std::collections::BTreeSet::new();
        for p in &points {
            let b = run(&sc, p);
            out.executions += 1;
            out.transitions += p.len() as u64;
            out.count("edges", p.len() as i64);
            out.add_state(&sc.id, &format!("{p:?}"));
            if let Some((class, what)) = diff(&a, &b, p[0]) {
                let sig = format!("{class}/{}", if sc.sqlite { "restart" } else { "evict" });
                if seen.insert(sig.clone()) {
                    out.violations.push(Violation {
                        property: "C12".into(),
                        sig: sig.clone(),
                        scenario: sc.id.clone(),
                        detail: format!("q={p:?}"),
                        what: format!("interrupted at quiescent point(s) {p:?}: {what}"),
                        replay: json!({"property": "C12", "signature": sig, "scenario": sc.id, "model": sc.yml, "interrupt_at": p, "what": what,
                            "uninterrupted": {"results": a.results, "messages": a.msgs, "terminal": a.terminal, "outcomes": a.outcomes},
                            "interrupted": {"results": b.results, "messages": b.msgs, "terminal": b.terminal, "outcomes": b.outcomes}}),
                    });
                }
            }
        }
        out.add_outcome(&sc.id, &format!("{:?}{:?}", a.terminal, a.outcomes));
        out.count("crash_points", points.len() as i64);
        if item["scn"] == 0 {
            out.samples.push(json!({"scenario": sc.id, "model": sc.yml, "uninterrupted": {"results": a.results, "messages_per_operation": a.msgs, "terminal": a.terminal}, "crash_points": points}));
        }
    }
}
