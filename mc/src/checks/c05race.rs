//! C05 (at-most-once part): several client threads issue the same action on one open act;
//! real threads, preemption-bounded exploration (T-mode).
use super::common::*;
use super::monitors;
use crate::amode::{digest, trace_log};
use crate::explore::Chooser;
use crate::report::*;
use crate::tmode::TRun;
use crate::wgen::{W1, W2};
use crate::world::{Cfg, Session, Tr};
use serde_json::{Value, json};
use std::collections::{BTreeMap, BTreeSet};

#[derive(Clone)]
pub struct Race {
    pub id: String,
    pub yml: &'static str,
    pub mid: &'static str,
    pub kind: &'static str,
    pub threads: usize,
    pub k: usize,
    /// key of the act the threads aim at (the same for all), or one key per thread
    pub keys: Vec<&'static str>,
}

pub fn races(tier: Tier) -> Vec<Race> {
    let mut v = vec![];
    let kinds = ["complete", "submit", "skip", "remove", "abort", "error", "back"];
    for (yml, mid) in [(W1, "w1"), (W2, "w2")] {
        for kind in kinds {
            if kind == "back" && mid == "w2" {
                // a back inside a branch re-instantiates the whole step: the non-preemptive orders of
                // the new queued tasks explode and add nothing to the at-most-once question
                continue;
            }
            let (threads, k) = (2, tier.pick(1, 2));
            v.push(Race {
                id: format!("race/{mid}/{kind}x{threads}/k{k}"),
                yml,
                mid,
                kind,
                threads,
                k,
                keys: vec!["a1"; threads],
            });
        }
    }
    if tier == Tier::Thorough {
        for kind in ["complete", "abort"] {
            v.push(Race {
                id: format!("race/w1/{kind}x3/k2"),
                yml: W1,
                mid: "w1",
                kind,
                threads: 3,
                k: 2,
                keys: vec!["a1"; 3],
            });
        }
    }
    v
}

pub fn run_race(ch: &mut Chooser, r: &Race, want_log: bool) -> RunObs {
    let mut sess = Session::new(&Cfg::keep());
    sess.deploy(r.yml);
    let _ = sess.start(r.mid, &vars_of(&json!({"pid": "p1"})));
    sess.drain();
    let mut t = TRun::new();
    for (i, key) in r.keys.iter().enumerate() {
        let tid = sess.tid_of_key("p1", key).unwrap_or_else(|| "missing".into());
        let kind = r.kind;
        let opts = match kind {
            "error" => json!({"ecode": "e1"}),
            "back" => json!({"to": "s1"}),
            _ => json!({}),
        };
        let vars = vars_of(&opts);
        t.add_client(
            &sess,
            &format!("c{} {kind} {key}", i + 1),
            Box::new(move |e| {
                let ex = e.executor();
                let a = ex.act();
                match kind {
                    "complete" => a.complete("p1", &tid, &vars),
                    "submit" => a.submit("p1", &tid, &vars),
                    "skip" => a.skip("p1", &tid, &vars),
                    "remove" => a.remove("p1", &tid, &vars),
                    "abort" => a.abort("p1", &tid, &vars),
                    "error" => a.error("p1", &tid, &vars),
                    "back" => a.back("p1", &tid, &vars),
                    _ => unreachable!(),
                }
            }),
        );
    }
    let start_at = sess.w.trace_len();
    t.run(ch, &mut sess, 400);
    let trace = sess.w.trace_snapshot();
    // oracle
    let mut viols: Vec<(String, String)> = vec![];
    let res: Vec<(String, Result<(), String>)> = sess.results.iter().filter(|(l, _)| l.starts_with('c')).cloned().collect();
    let oks = res.iter().filter(|(_, r)| r.is_ok()).count();
    let same_target = r.keys.iter().all(|k| *k == r.keys[0]);
    if same_target && oks != 1 {
        viols.push((
            format!("race/{}/{}-ok", r.kind, oks),
            format!("{} identical '{}' calls on one open act: {} returned Ok ({:?})", r.threads, r.kind, oks, res),
        ));
    }
    for (l, r2) in &res {
        if r2.as_ref().err().map(|e| e == "PANIC").unwrap_or(false) {
            viols.push((format!("race/{}/panic", r.kind), format!("the call {l} panicked")));
        }
    }
    if sess.scheduler_dead {
        viols.push((format!("race/{}/scheduler-dead", r.kind), "the scheduler task panicked".into()));
    }
    // successors are created exactly once
    let mut per_nid: BTreeMap<String, BTreeSet<String>> = BTreeMap::new();
    for tr in &trace {
        if let Tr::TaskEvent { nid, tid, .. } = tr {
            per_nid.entry(nid.clone()).or_default().insert(tid.clone());
        }
    }
    let limit = if r.kind == "back" { 2 } else { 1 };
    let dups: Vec<String> = per_nid.iter().filter(|(_, t)| t.len() > limit).map(|(n, t)| format!("{n}x{}", t.len())).collect();
    if !dups.is_empty() {
        viols.push((
            format!("race/{}/dup-successor", r.kind),
            format!("nodes instantiated more than {limit} time(s): {dups:?}"),
        ));
    }
    // message multiplicities of what was generated during the race
    let e = Exec {
        trace: trace.clone(),
        points: vec![],
        results: sess.results.clone(),
        panics: sess.panics.clone(),
        scheduler_dead: sess.scheduler_dead,
        arun: crate::amode::ARun {
            steps: t.slices,
            horizon_hit: t.horizon_hit,
            states: vec![],
            max_enabled: t.max_enabled,
        },
        pids: vec!["p1".into()],
        machinery: sess.machinery_errors(),
        delivered: vec![],
    };
    for (sig, what) in monitors::messages(&e, &[]) {
        if sig.starts_with("dup-message") || sig.starts_with("dup-message-id") {
            viols.push((format!("race/{}/{}", r.kind, sig.split('/').take(3).collect::<Vec<_>>().join("/")), what));
        }
    }
    viols.sort();
    viols.dedup_by(|a, b| a.0 == b.0);
    let log = trace_log(&trace[start_at.min(trace.len())..]);
    let mut oc: Vec<String> = res.iter().map(|(l, r)| format!("{l}={}", if r.is_ok() { "ok" } else { "err" })).collect();
    oc.sort();
    let outcome = format!("{:?} tasks={:?}", oc, per_nid.iter().map(|(n, t)| format!("{n}:{}", t.len())).collect::<Vec<_>>());
    RunObs {
        digest: digest(&log, &format!("{:?}", res)),
        states: vec![crate::explore::fnv(&outcome)],
        outcome,
        viols,
        detail: String::new(),
        log: if want_log { log } else { vec![] },
        machinery: sess.machinery_errors(),
    }
}

pub fn items(tier: Tier) -> Vec<Value> {
    let mut v = vec![];
    for (i, r) in races(tier).iter().enumerate() {
        let (singles, roots) = crate::explore::split_frontier(Some(r.k), tier.pick(8, 64), |ch| {
            run_race(ch, r, false);
        });
        for (k, p) in singles.iter().enumerate() {
            v.push(json!({"id": format!("{}#s{}", r.id, k), "scenario": r.id, "race": i, "prefix": p, "single": true}));
        }
        for (k, p) in roots.iter().enumerate() {
            v.push(json!({"id": format!("{}#{}", r.id, k), "scenario": r.id, "race": i, "prefix": p, "single": false}));
        }
    }
    v
}

pub fn run_item(tier: Tier, item: &Value, out: &mut ItemOut) {
    let r = races(tier).swap_remove(item["race"].as_u64().unwrap() as usize);
    let prefix: Vec<u32> = item["prefix"].as_array().unwrap().iter().map(|x| x.as_u64().unwrap() as u32).collect();
    let single = item["single"].as_bool().unwrap();
    let desc = json!({"model": r.yml, "threads": r.threads, "action": r.kind, "targets": r.keys, "preemption_bound": r.k});
    let st = explore_scenario_from(out, "C05", &r.id, &desc, Some(r.k), 5_000_000, prefix.is_empty(), &prefix, single, spill_after(), &|ch, log| {
        run_race(ch, &r, log)
    });
    out.count(&format!("executions[{}]", r.id), st.executions as i64);
}
