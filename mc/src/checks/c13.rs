//! C13 — Isolation: several processes at once give each process what it gets alone.
//! Deviation-bounded A-mode over the activities of all processes (default: stay with the current
//! process, FIFO) with explicit evictions; per-pid projections are compared with the outcome set
//! of the same process explored alone; duplicate starts in every position relative to the launch.
use super::common::vars_of;
use crate::amode::{digest, trace_log};
use crate::explore::Chooser;
use crate::report::*;
use crate::wgen::{W1, W2, W4};
use crate::world::{Cfg, Kind, Session, Tr};
use serde_json::{Value, json};
use std::collections::{BTreeMap, BTreeSet};

pub const WISO: &str = "id: wiso\ninputs:\n  who: \"\"\n  seen: \"\"\noutputs:\n  who:\n  seen:\nsteps:\n  - id: s1\n    acts:\n      - uses: acts.transform.code\n        params: \"$env.who = pid; return { who: pid + '-v' };\"\n      - uses: acts.core.irq\n        key: a1\n      - uses: acts.transform.code\n        params: \"return { seen: $env.who };\"\n  - id: s2\n    acts:\n      - uses: acts.core.irq\n        key: a2\n";

fn mid_of(yml: &str) -> String {
    yml.lines().next().unwrap().trim_start_matches("id:").trim().to_string()
}

#[derive(Clone, Debug)]
pub struct Scn {
    pub id: String,
    /// (model, how the client ends the first open interrupt: complete / abort / error)
    pub procs: Vec<(&'static str, &'static str)>,
    pub bound: usize,
    pub evictions: usize,
    pub cache_cap: Option<i64>,
}

pub fn scenarios(tier: Tier) -> Vec<Scn> {
    let mut v = vec![];
    let models: Vec<(&str, &'static str)> = vec![("w1", W1), ("w2", W2), ("wiso", WISO), ("w4", W4)];
    let q = tier == Tier::Quick;
    for (i, (na, ma)) in models.iter().enumerate() {
        for (nb, mb) in models.iter().skip(i) {
            for ending in ["complete", "abort", "error"] {
                if q && ending != "complete" && !(*na == "w1" || *nb == "wiso") {
                    continue;
                }
                v.push(Scn {
                    id: format!("pair/{na}+{nb}/{ending}/d{}", if q { 2 } else { 3 }),
                    procs: vec![(ma, ending), (mb, "complete")],
                    bound: if q { 2 } else { 3 },
                    evictions: 1,
                    cache_cap: None,
                });
            }
        }
    }
    // the script workflow first (the default schedule runs the first process first)
    for (nb, mb) in [("w1", W1), ("w2", W2)] {
        v.push(Scn {
            id: format!("pair/wiso+{nb}/complete/d2"),
            procs: vec![(WISO, "complete"), (mb, "complete")],
            bound: 2,
            evictions: 1,
            cache_cap: None,
        });
    }
    if !q {
        v.push(Scn {
            id: "triple/w1+w2+wiso/complete/d2".into(),
            procs: vec![(W1, "complete"), (W2, "complete"), (WISO, "complete")],
            bound: 2,
            evictions: 1,
            cache_cap: None,
        });
    }
    // a small configured capacity must not change anything either
    v.push(Scn {
        id: "pair/w1+wiso/complete/cap1/d1".into(),
        procs: vec![(W1, "complete"), (WISO, "complete")],
        bound: 1,
        evictions: 0,
        cache_cap: Some(1),
    });
    v
}

fn erase_ids(s: &str) -> String {
    super::c12_erase(s)
}

/// what a process looks like from outside: message multiset, task outcomes, terminal event
fn projection(trace: &[Tr], pid: &str) -> String {
    let mut msgs: Vec<String> = vec![];
    let mut term: Vec<String> = vec![];
    let mut last: BTreeMap<String, String> = BTreeMap::new();
    for t in trace {
        match t {
            Tr::Emit { channel: "message", msg } if msg.pid == pid => {
                let mut inputs = serde_json::to_value(&msg.inputs).unwrap_or_default();
                if let Some(st) = inputs.get_mut("step").and_then(|s| s.as_object_mut()) {
                    st.remove("task_id");
                }
                msgs.push(erase_ids(&format!(
                    "{} nid={} key={} uses={} {:?} in={} out={}",
                    msg.r#type,
                    msg.nid,
                    msg.key,
                    msg.uses,
                    msg.state,
                    inputs,
                    serde_json::to_value(&msg.outputs).unwrap_or_default()
                )));
            }
            Tr::Emit { channel, msg } if (*channel == "complete" || *channel == "error") && msg.pid == pid => {
                term.push(erase_ids(&format!("{channel} {:?} out={}", msg.state, serde_json::to_value(&msg.outputs).unwrap_or_default())));
            }
            Tr::TaskEvent {
                pid: p,
                tid,
                nid,
                kind,
                state,
                key,
                ..
            } if p == pid => {
                last.insert(tid.clone(), erase_ids(&format!("{kind} {} {state}", if kind == "act" { key } else { nid })));
            }
            _ => {}
        }
    }
    msgs.sort();
    let mut oc: Vec<String> = last.into_values().collect();
    oc.sort();
    format!("msgs={msgs:?} term={term:?} tasks={oc:?}")
}

struct RunOut {
    projections: BTreeMap<String, String>,
    viols: Vec<(String, String)>,
    obs: RunObs,
}

/// one execution of the given processes (pids p1..pn) under the chooser
fn run(ch: &mut Chooser, procs: &[(&'static str, &'static str)], pids: &[String], evictions: usize, cache_cap: Option<i64>, want_log: bool) -> RunOut {
    let cfg = Cfg {
        cache_cap,
        ..Default::default()
    };
    let mut sess = Session::new(&cfg);
    let mut deployed = BTreeSet::new();
    for (m, _) in procs {
        if deployed.insert(mid_of(m)) {
            sess.deploy(m);
        }
    }
    for (i, (m, _)) in procs.iter().enumerate() {
        let _ = sess.start(&mid_of(m), &vars_of(&json!({"pid": pids[i]})));
    }
    let mut viols: Vec<(String, String)> = vec![];
    let mut cur = String::new();
    let mut first_answered: BTreeSet<String> = BTreeSet::new();
    let mut evicted = 0usize;
    let mut refused: BTreeSet<(String, String)> = BTreeSet::new();
    let mut evict_kind = "no-evict";
    let mut states = vec![];
    let mut steps = 0;
    loop {
        let acts = sess.enabled();
        // client operations: answer any open interrupt; the first one of a process as scripted
        let open = sess.open_irqs(None);
        #[derive(Clone)]
        enum Alt {
            Eng(u64, String),
            Answer(String, String, &'static str),
            Evict(String),
        }
        let mut alts: Vec<(String, Alt)> = vec![];
        for a in &acts {
            alts.push((a.pid.clone(), Alt::Eng(a.seq, a.label())));
        }
        for m in &open {
            // an answer that was refused is not repeated
            if refused.contains(&(m.pid.clone(), m.tid.clone())) {
                continue;
            }
            let i = pids.iter().position(|p| *p == m.pid);
            let kind = match i {
                Some(i) if !first_answered.contains(&m.pid) => procs[i].1,
                _ => "complete",
            };
            alts.push((m.pid.clone(), Alt::Answer(m.pid.clone(), m.tid.clone(), kind)));
        }
        if evicted < evictions {
            for p in sess.engine.verif().cached_pids() {
                if pids.contains(&p) {
                    alts.push((format!("~{p}"), Alt::Evict(p)));
                }
            }
        }
        let real = alts.iter().filter(|(_, a)| !matches!(a, Alt::Evict(_))).count();
        if real == 0 {
            break;
        }
        steps += 1;
        if steps > 400 {
            ch.horizon_hit = true;
            break;
        }
        // default: stay with the current process (oldest first), then the other processes, evictions last
        alts.sort_by_key(|(p, a)| (matches!(a, Alt::Evict(_)), *p != cur));
        states.push(crate::amode::fingerprint(&sess, &acts));
        let c = ch.choose(alts.len());
        let (p, alt) = alts[c].clone();
        match alt {
            Alt::Eng(seq, label) => {
                ch.label(|| label);
                sess.run(seq);
                cur = p;
            }
            Alt::Answer(pid, tid, kind) => {
                ch.label(|| format!("client {kind} {pid}:{tid}"));
                let opts = if kind == "error" { json!({"ecode": "e1"}) } else { json!({}) };
                let r = sess.act(kind, &pid, &tid, &vars_of(&opts));
                if r.as_ref().err().map(|e| e == "PANIC").unwrap_or(false) {
                    viols.push(("client-panic".into(), format!("{kind} on {pid}:{tid} panicked")));
                }
                if r.is_err() {
                    refused.insert((pid.clone(), tid.clone()));
                }
                first_answered.insert(pid.clone());
                cur = pid;
            }
            Alt::Evict(pid) => {
                ch.label(|| format!("evict {pid}"));
                // was work of that process in flight?
                let inflight = acts.iter().any(|a| a.pid == pid);
                evict_kind = if inflight { "evict-inflight" } else { "evict-quiescent" };
                sess.engine.verif().uncache(&pid);
                evicted += 1;
            }
        }
    }
    if sess.scheduler_dead {
        viols.push(("scheduler-dead".into(), format!("the scheduler task panicked: {:?}", sess.panics)));
    }
    let trace = sess.w.trace_snapshot();
    // nothing carries a foreign pid: every message of a process names only its own pid
    for t in &trace {
        if let Tr::Emit { msg, .. } = t {
            let text = format!("{} {}", serde_json::to_value(&msg.inputs).unwrap_or_default(), serde_json::to_value(&msg.outputs).unwrap_or_default());
            for other in pids.iter().filter(|p| **p != msg.pid) {
                if text.contains(&format!("\"{other}")) {
                    viols.push(("foreign-value".into(), format!("a message of {} carries a value of {other}: {text}", msg.pid)));
                }
            }
        }
    }
    let mut projections = BTreeMap::new();
    for p in pids {
        projections.insert(p.clone(), projection(&trace, p));
    }
    let log = trace_log(&trace);
    let outcome = format!("{:?}", projections.values().map(|p| crate::explore::fnv(p)).collect::<Vec<_>>());
    let obs = RunObs {
        digest: digest(&log, &format!("{:?}", sess.results)),
        states,
        outcome,
        viols: vec![],
        detail: evict_kind.to_string(),
        log: if want_log { log } else { vec![] },
        machinery: sess.machinery_errors(),
    };
    RunOut { projections, viols, obs }
}

/// outcome set of one process explored alone (same alphabet, one more deviation, never evicted)
fn solo_set(model: &'static str, ending: &'static str, bound: usize) -> BTreeSet<String> {
    let mut set = BTreeSet::new();
    let procs = vec![(model, ending)];
    let pids = vec!["pX".to_string()];
    crate::explore::dfs(
        Some(bound + 1),
        200_000,
        |ch| run(ch, &procs, &pids, 0, None, false),
        |_, o: RunOut| {
            set.insert(o.projections["pX"].clone());
            true
        },
    );
    set
}

// ---- duplicate start ---------------------------------------------------------------------------

fn dup_start(out: &mut ItemOut) {
    // positions of the second start: before the launch ran, after the launch, after the root task
    // ran, while an interrupt is open, after the process completed
    let scen = "dup-start";
    let mut viols: BTreeMap<String, String> = BTreeMap::new();
    for pos in 0..5 {
        let mut sess = Session::new(&Cfg::keep());
        sess.deploy(W1);
        let r1 = sess.start("w1", &vars_of(&json!({"pid": "p1"})));
        assert!(r1.is_ok());
        let mut steps = 0;
        while steps < pos.min(3) {
            let en = sess.enabled();
            if en.is_empty() {
                break;
            }
            sess.run(en[0].seq);
            steps += 1;
        }
        if pos >= 3 {
            sess.drain();
        }
        if pos == 4 {
            for _ in 0..4 {
                if let Some(m) = sess.open_irqs(Some("p1")).first().cloned() {
                    let _ = sess.act("complete", "p1", &m.tid, &acts::Vars::new());
                    sess.drain();
                }
            }
        }
        let live = pos < 4;
        let r2 = sess.start("w1", &vars_of(&json!({"pid": "p1"})));
        sess.drain();
        out.executions += 1;
        out.count("edges", 1);
        out.add_state(scen, &format!("{pos}"));
        let names = ["before-launch", "after-launch", "after-root-ran", "interrupt-open", "after-completion"];
        let trace = sess.w.trace_snapshot();
        let starts = trace.iter().filter(|t| matches!(t, Tr::Emit { channel: "start", msg } if msg.pid == "p1")).count();
        let roots = sess.dump_light("p1").map(|d| d.tasks.iter().filter(|t| t.kind == "workflow").count()).unwrap_or(0);
        if live && r2.is_ok() {
            viols.entry(format!("duplicate-pid/accepted/{}", names[pos])).or_insert(format!(
                "a second start with the live pid p1 ({}) was accepted; start events {starts}, root tasks {roots}",
                names[pos]
            ));
        }
        if live && starts > 1 {
            viols.entry(format!("duplicate-pid/two-starts/{}", names[pos])).or_insert(format!("two start events for pid p1 ({})", names[pos]));
        }
        let _ = Kind::Send;
    }
    for (sig, what) in viols {
        out.violations.push(Violation {
            property: "C13".into(),
            sig: sig.clone(),
            scenario: scen.into(),
            detail: String::new(),
            what: what.clone(),
            replay: json!({"property": "C13", "signature": sig, "what": what, "model": W1}),
        });
    }
}

pub struct C13;

impl Check for C13 {
    fn info(&self, tier: Tier) -> CheckInfo {
        CheckInfo {
            id: "C13",
            level: "model_checking",
            rule: "every unordered pair (a triple in thorough) of processes from {sequential, two branches, script writing env and variables from its pid, parallel generator}, one of them ended by complete / abort / error; all interleavings of the activities of the processes with at most d deviations from 'stay with the current process, oldest first', one eviction of any cached process at any boundary; the per-pid projection (message multiset, task outcomes, terminal outputs, ids erased) must be in the outcome set of that process explored alone with the same alphabet; no message carries a value of the other process; a configured cache capacity of 1; a second start with the same pid at five positions relative to launch / completion".into(),
            assumptions: vec![
                "worker-thread count is subsumed: any number of runtime threads yields a subset of the explored interleavings of atomic activities".into(),
                "workflows whose reload is a recorded C12 finding (sequential generators) are not in the alphabet".into(),
            ],
            budget_s: tier.pick(55, 1200),
            exhaustive_when_uncapped: true,
            bounds: json!({"processes": tier.pick("2", "2-3"), "deviations": tier.pick(2, 3), "evictions": 1}),
        }
    }
    fn items(&self, tier: Tier) -> Vec<Value> {
        let mut v = vec![json!({"id": "dup-start", "dup": true})];
        for (si, s) in scenarios(tier).iter().enumerate() {
            let pids: Vec<String> = (0..s.procs.len()).map(|i| format!("p{}", i + 1)).collect();
            let (singles, roots) = crate::explore::split_frontier(Some(s.bound), 48, |ch| {
                run(ch, &s.procs, &pids, s.evictions, s.cache_cap, false);
            });
            for (k, p) in singles.iter().enumerate() {
                v.push(json!({"id": format!("{}#s{}", s.id, k), "scenario": s.id, "scn": si, "prefix": p, "single": true}));
            }
            for (k, p) in roots.iter().enumerate() {
                v.push(json!({"id": format!("{}#{}", s.id, k), "scenario": s.id, "scn": si, "prefix": p, "single": false}));
            }
        }
        v
    }
    fn run_item(&self, tier: Tier, item: &Value, out: &mut ItemOut) {
        if item.get("dup").is_some() {
            dup_start(out);
            return;
        }
        let s = scenarios(tier).swap_remove(item["scn"].as_u64().unwrap() as usize);
        let pids: Vec<String> = (0..s.procs.len()).map(|i| format!("p{}", i + 1)).collect();
        // outcome sets alone (cached per worker process)
        thread_local! {
            static SOLO: std::cell::RefCell<BTreeMap<String, BTreeSet<String>>> = const { std::cell::RefCell::new(BTreeMap::new()) };
        }
        let mut solos: Vec<BTreeSet<String>> = vec![];
        for (m, e) in &s.procs {
            let key = format!("{}|{e}|{}", mid_of(m), s.bound);
            let set = SOLO.with(|c| c.borrow().get(&key).cloned());
            let set = match set {
                Some(x) => x,
                None => {
                    let x = solo_set(m, e, s.bound);
                    SOLO.with(|c| c.borrow_mut().insert(key, x.clone()));
                    x
                }
            };
            solos.push(set);
        }
        let prefix: Vec<u32> = item["prefix"].as_array().unwrap().iter().map(|x| x.as_u64().unwrap() as u32).collect();
        let single = item["single"].as_bool().unwrap();
        let desc = json!({"models": s.procs.iter().map(|(m, e)| json!({"model": m, "first_interrupt_answered_with": e})).collect::<Vec<_>>(), "deviation_bound": s.bound, "evictions": s.evictions, "cache_cap": s.cache_cap});
        let sref = &s;
        let pref = &pids;
        let solref = &solos;
        explore_scenario_from(out, "C13", &s.id, &desc, Some(s.bound), 3_000_000, prefix.is_empty(), &prefix, single, spill_after(), &move |ch, log| {
            let o = run(ch, &sref.procs, pref, sref.evictions, sref.cache_cap, log);
            let mut viols = o.viols.clone();
            for (i, p) in pref.iter().enumerate() {
                // the projection with the pid renamed to the solo pid
                let proj = o.projections[p].replace(p.as_str(), "pX");
                if !solref[i].contains(&proj) {
                    let nearest = solref[i].iter().next().cloned().unwrap_or_default();
                    viols.push((
                        format!("differs-from-solo/{}", mid_of(sref.procs[i].0)),
                        format!("process {p} ({}) behaves as in none of its {} solo outcomes; here: {proj}; e.g. alone: {nearest}", mid_of(sref.procs[i].0), solref[i].len()),
                    ));
                }
            }
            viols.sort();
            viols.dedup_by(|a, b| a.0 == b.0);
            let mut obs = o.obs;
            obs.viols = viols;
            obs
        });
        out.count("solo_outcomes", solos.iter().map(|s| s.len() as i64).sum());
    }
}
