//! Oracles written from the property texts (DESIGN appendix B). Each is a pure function of one
//! execution and returns (signature, explanation) pairs.
use super::common::*;
use super::hist::{OpRec, op_at};
use crate::amode::is_terminal_state;
use crate::world::Tr;
use acts::verif::{ProcDump, TaskDump};
use std::collections::{BTreeMap, BTreeSet, HashMap};

pub type V = Vec<(String, String)>;

fn push(v: &mut V, sig: String, what: String) {
    if !v.iter().any(|(s, _)| *s == sig) {
        v.push((sig, what));
    }
}

pub fn rank(s: &str) -> u8 {
    match s {
        "none" => 0,
        "ready" | "pending" | "interrupted" => 1,
        "running" => 2,
        _ => 3,
    }
}

fn action_of(ops: &[OpRec], i: usize) -> String {
    match op_at(ops, i) {
        Some(o) => o.spec.kind.clone(),
        None => "engine".to_string(),
    }
}

pub fn is_hook_task(t: &TaskDump) -> bool {
    t.is_hook
}

/// does the task declare a catch matching the error it carries?
fn has_matching_catch(t: &TaskDump) -> bool {
    let hooks: serde_json::Value = serde_json::from_str(&t.hooks).unwrap_or_default();
    let ecode = t
        .err
        .as_ref()
        .and_then(|e| serde_json::from_str::<serde_json::Value>(e).ok())
        .and_then(|e| e.get("ecode").and_then(|c| c.as_str()).map(|s| s.to_string()));
    if let Some(list) = hooks.get("ErrorCatch").and_then(|x| x.as_array()) {
        for c in list {
            if let Some(c) = c.get("Catch") {
                match c.get("on") {
                    None | Some(serde_json::Value::Null) => return true,
                    Some(on) => {
                        if ecode.as_deref() == on.as_str() {
                            return true;
                        }
                    }
                }
            }
        }
    }
    false
}

/// C02 (B.5): the sequence of states reported for each task only moves forward
pub fn lifecycle(e: &Exec, ops: &[OpRec]) -> V {
    let mut v = vec![];
    #[derive(Default)]
    struct St {
        prev: String,
        terminal: Option<String>,
        revived: bool,
        catchable: bool,
    }
    let mut m: HashMap<(String, String), St> = HashMap::new();
    for (i, t) in e.trace.iter().enumerate() {
        let (pid, tid, nid, kind, state, dump) = match t {
            Tr::TaskEvent {
                pid,
                tid,
                nid,
                kind,
                state,
                dump,
                ..
            } => (pid, tid, nid, kind, state, dump),
            _ => continue,
        };
        let st = m.entry((pid.clone(), tid.clone())).or_insert_with(|| St {
            prev: "none".into(),
            ..Default::default()
        });
        if *state == "error" && st.terminal.is_none() {
            // can the task take this error with a catch of its own?
            st.catchable = dump
                .as_ref()
                .and_then(|d| d.tasks.iter().find(|x| x.tid == *tid))
                .map(has_matching_catch)
                .unwrap_or(true);
        }
        if let Some(term) = st.terminal.clone() {
            if *state == term {
                continue;
            }
            // the single exception: an error taken by a matching catch of the task itself puts it
            // back to running once (the revival itself is not reported, its consequences are)
            if term == "error" && !st.revived && st.catchable {
                st.revived = true;
                st.terminal = None;
                st.prev = "running".into();
            } else {
                push(
                    &mut v,
                    format!("rewrite/{term}->{state}/{kind}/{}", action_of(ops, i)),
                    format!("{kind} {nid} ({pid}:{tid}) was reported {term} and is later reported {state}"),
                );
                st.terminal = if is_terminal_state(state) { Some(state.clone()) } else { None };
                st.prev = state.clone();
                continue;
            }
        }
        let (rp, rs) = (rank(&st.prev), rank(state));
        if rs < rp {
            push(
                &mut v,
                format!("backward/{}->{state}/{kind}/{}", st.prev, action_of(ops, i)),
                format!("{kind} {nid} ({pid}:{tid}) went back from {} to {state}", st.prev),
            );
        } else if rs == 1 && rp == 1 && st.prev != *state && st.prev != "ready" {
            push(
                &mut v,
                format!("created-class/{}->{state}/{kind}/{}", st.prev, action_of(ops, i)),
                format!("{kind} {nid} ({pid}:{tid}) changed inside the created class from {} to {state}", st.prev),
            );
        }
        if is_terminal_state(state) {
            st.terminal = Some(state.clone());
        }
        st.prev = state.clone();
    }
    // the catch exception applies once per task: count the revivals in the write trace
    let mut revivals: HashMap<(String, String), usize> = HashMap::new();
    for (i, t) in e.trace.iter().enumerate() {
        if let Tr::StateWrite {
            pid,
            tid,
            nid,
            kind,
            old,
            new,
            ..
        } = t
        {
            if old == "error" && new == "running" {
                let n = revivals.entry((pid.clone(), tid.clone())).or_default();
                *n += 1;
                if *n == 2 {
                    push(
                        &mut v,
                        format!("revived-twice/{kind}/{}", action_of(ops, i)),
                        format!("{kind} {nid} ({pid}:{tid}) was put back from error to running a second time"),
                    );
                }
            } else if is_terminal_state(old) && old != "error" && !is_terminal_state(new) {
                push(
                    &mut v,
                    format!("reopened/{old}->{new}/{kind}/{}", action_of(ops, i)),
                    format!("{kind} {nid} ({pid}:{tid}) left the terminal state {old} for {new}"),
                );
            }
        }
    }
    // what the API shows at quiescent points must agree with the reports: a task seen terminal stays so
    let mut seen: HashMap<(String, String), String> = HashMap::new();
    for q in &e.points {
        for (pid, d) in &q.views {
            if let Some(d) = d {
                for t in &d.tasks {
                    let k = (pid.clone(), t.tid.clone());
                    if let Some(old) = seen.get(&k) {
                        if is_terminal_state(old) && *old != t.state {
                            let revived = old == "error" && has_catch_any(t);
                            if !revived {
                                push(
                                    &mut v,
                                    format!("rewrite-seen/{old}->{}/{}", t.state, t.kind),
                                    format!(
                                        "{} {} ({pid}:{}) was {old} at one quiescent point and {} at a later one",
                                        t.kind, t.nid, t.tid, t.state
                                    ),
                                );
                            }
                        }
                    }
                    seen.insert(k, t.state.clone());
                }
            }
        }
    }
    v
}

fn has_catch_any(_t: &TaskDump) -> bool {
    // the quiescent views are structural; the reports decide the catch exception
    true
}

fn parent_of<'a>(d: &'a ProcDump, t: &'a TaskDump) -> Option<&'a TaskDump> {
    let by: HashMap<&str, &TaskDump> = d.tasks.iter().map(|x| (x.tid.as_str(), x)).collect();
    let mut prev = t.prev.clone();
    let mut guard = 0;
    while let Some(p) = prev {
        guard += 1;
        if guard > 1000 {
            return None;
        }
        match by.get(p.as_str()) {
            Some(x) => {
                if x.level < t.level {
                    return Some(x);
                }
                prev = x.prev.clone();
            }
            None => return None,
        }
    }
    None
}

fn has_ancestor(d: &ProcDump, t: &TaskDump, anc: &str) -> bool {
    let mut cur = parent_of(d, t);
    let mut guard = 0;
    while let Some(p) = cur {
        if p.tid == anc {
            return true;
        }
        guard += 1;
        if guard > 100 {
            break;
        }
        cur = parent_of(d, p);
    }
    false
}

/// C03: hierarchical completion and exactly one terminal event
pub fn completion(e: &Exec, ops: &[OpRec]) -> V {
    let mut v = vec![];
    // (i) a container reported completed has no open task beneath it. Judged at the end of the
    // activity that made the report (an action may report a container before it closes the
    // children in the same call; what must not happen is that they are left open).
    for (i, t) in e.trace.iter().enumerate() {
        if let Tr::TaskEvent {
            pid, tid, nid, kind, state, ..
        } = t
        {
            if state != "completed" {
                continue;
            }
            let d = match e.points.iter().find(|q| q.at > i).and_then(|q| q.views.get(pid)).and_then(|x| x.as_ref()) {
                Some(d) => d,
                None => continue,
            };
            // the container may have been reopened / redone meanwhile: judge only if it is still completed
            if d.tasks.iter().find(|x| x.tid == *tid).map(|x| x.state != "completed").unwrap_or(true) {
                continue;
            }
            let open: Vec<String> = d
                .tasks
                .iter()
                .filter(|x| !is_terminal_state(&x.state) && !is_hook_task(x) && has_ancestor(d, x, tid))
                .map(|x| format!("{} {} {}", x.kind, x.nid, x.state))
                .collect();
            if !open.is_empty() {
                push(
                    &mut v,
                    format!("completed-over-open/{kind}/{}", action_of(ops, i)),
                    format!("{kind} {nid} ({pid}:{tid}) is reported completed while tasks beneath it are left open: {open:?}"),
                );
            }
        }
    }
    // (ii) process state mirrors the root task at quiescent points
    for q in &e.points {
        if !q.quiescent {
            continue;
        }
        for (pid, d) in &q.views {
            if let Some(d) = d {
                if let Some(root) = d.tasks.iter().find(|t| t.tid == "$") {
                    let a = if rank(&d.state) == 1 { "running".to_string() } else { d.state.clone() };
                    let b = if rank(&root.state) == 1 { "running".to_string() } else { root.state.clone() };
                    if a != b {
                        push(
                            &mut v,
                            format!("proc-state/{}-vs-root-{}", d.state, root.state),
                            format!("process {pid} is {} but its root task is {}", d.state, root.state),
                        );
                    }
                }
            }
        }
    }
    // (iii) one start event, at most one terminal event, exactly one once the process has ended
    for pid in &e.pids {
        let starts = e
            .trace
            .iter()
            .filter(|t| matches!(t, Tr::Emit { channel: "start", msg } if msg.pid == *pid))
            .count();
        let accepted = e.trace.iter().any(|t| matches!(t, Tr::ProcEvent { pid: p, .. } if p == pid));
        if accepted && starts != 1 {
            push(&mut v, format!("start-events/{starts}"), format!("process {pid} generated {starts} start events"));
        }
        let terms = e.terminal_events(pid, e.trace.len());
        if terms.len() > 1 {
            let kinds: Vec<String> = terms.iter().map(|(c, m)| format!("{c}:{:?}", m.state)).collect();
            let i = e
                .trace
                .iter()
                .rposition(|t| matches!(t, Tr::Emit { channel, msg } if (*channel == "complete" || *channel == "error") && msg.pid == *pid))
                .unwrap_or(0);
            push(
                &mut v,
                format!("multi-terminal/{}/{}", kinds.join("+"), action_of(ops, i)),
                format!("process {pid} delivered {} terminal events: {kinds:?}", terms.len()),
            );
        }
        // ended = the root task was reported terminal
        let root_ended = e.trace.iter().any(|t| {
            matches!(t, Tr::TaskEvent { pid: p, tid, state, .. } if p == pid && tid == "$" && is_terminal_state(state))
        });
        let last_q = e.points.last().map(|q| q.quiescent).unwrap_or(false);
        if root_ended && last_q && terms.is_empty() {
            push(
                &mut v,
                "no-terminal-event".into(),
                format!("the root task of {pid} ended but no complete/error event was generated"),
            );
        }
        // (iv) after a non-error terminal event nothing is open, then or later
        let mut term_at: Option<(usize, String)> = None;
        for (i, t) in e.trace.iter().enumerate() {
            match t {
                Tr::Emit { channel: "complete", msg } if msg.pid == *pid && term_at.is_none() => {
                    term_at = Some((i, format!("{:?}", msg.state).to_lowercase()));
                    // the structural dump at the end of the activity that delivered the event
                    let d = e.points.iter().find(|q| q.at > i).and_then(|q| q.views.get(pid)).and_then(|x| x.as_ref());
                    if let Some(d) = d {
                        let open: Vec<String> = d
                            .tasks
                            .iter()
                            .filter(|x| !is_terminal_state(&x.state) && !is_hook_task(x))
                            .map(|x| format!("{} {} {}", x.kind, x.nid, x.state))
                            .collect();
                        if !open.is_empty() {
                            push(
                                &mut v,
                                format!("open-after-terminal/{}/{}", term_at.as_ref().unwrap().1, action_of(ops, i)),
                                format!(
                                    "process {pid} delivered its terminal event ({}) and tasks are left open: {open:?}",
                                    term_at.as_ref().unwrap().1
                                ),
                            );
                        }
                    } else {
                        // the process is already gone from the cache (no keep_processes): the states
                        // last written before the end of the delivering activity, from the trace
                        let upto = e.points.iter().find(|q| q.at > i).map(|q| q.at).unwrap_or(e.trace.len());
                        let mut last: BTreeMap<String, (String, String, String, bool)> = BTreeMap::new();
                        for t in &e.trace[..upto.min(e.trace.len())] {
                            match t {
                                Tr::TaskEvent { pid: p, tid, nid, kind, state, is_hook, .. } if p == pid => {
                                    last.insert(tid.clone(), (kind.clone(), nid.clone(), state.clone(), *is_hook));
                                }
                                Tr::StateWrite { pid: p, tid, new, .. } if p == pid => {
                                    if let Some(x) = last.get_mut(tid) {
                                        x.2 = new.clone();
                                    }
                                }
                                _ => {}
                            }
                        }
                        let open: Vec<String> = last.values().filter(|x| !is_terminal_state(&x.2) && !x.3).map(|x| format!("{} {} {}", x.0, x.1, x.2)).collect();
                        if !open.is_empty() {
                            push(
                                &mut v,
                                format!("open-after-terminal/{}/{}", term_at.as_ref().unwrap().1, action_of(ops, i)),
                                format!(
                                    "process {pid} delivered its terminal event ({}) and tasks are left open: {open:?}",
                                    term_at.as_ref().unwrap().1
                                ),
                            );
                        }
                    }
                }
                Tr::TaskEvent {
                    pid: p,
                    tid,
                    nid,
                    kind,
                    state,
                    is_hook,
                    ..
                } if p == pid && term_at.is_some() && !is_terminal_state(state) => {
                    if !*is_hook {
                        push(
                            &mut v,
                            format!("active-after-terminal/{kind}/{state}"),
                            format!("after the terminal event of {pid}, {kind} {nid} ({tid}) is reported {state}"),
                        );
                    }
                }
                _ => {}
            }
        }
        if let Some((at, st)) = &term_at {
            for o in ops {
                if o.trace_from > *at && o.spec.pid == *pid && o.result.is_ok() {
                    push(
                        &mut v,
                        format!("acted-after-terminal/{st}/{}", o.spec.kind),
                        format!("after the terminal event ({st}) of {pid} the action {} was accepted", o.spec.label()),
                    );
                }
            }
        }
    }
    v
}

/// C08 (B.7): the message stream is a faithful image of the task lifecycles
pub fn messages(e: &Exec, ops: &[OpRec]) -> V {
    let mut v = vec![];
    let mut ids: BTreeSet<String> = BTreeSet::new();
    #[derive(Default)]
    struct Ms {
        created: Vec<usize>,
        terminal: Vec<(usize, String)>,
    }
    let mut per: BTreeMap<(String, String), Ms> = BTreeMap::new();
    // last reported state and identity of each task
    #[derive(Clone, Default)]
    struct Ts {
        nid: String,
        kind: String,
        uses: String,
        key: String,
        state: String,
        states: Vec<String>,
        hook: bool,
        caught_own: bool,
        error_reported: bool,
        parent: Option<String>,
        prev: Option<String>,
        level: usize,
    }
    let mut tasks: BTreeMap<(String, String), Ts> = BTreeMap::new();
    for (i, t) in e.trace.iter().enumerate() {
        match t {
            Tr::TaskEvent {
                pid,
                tid,
                nid,
                kind,
                state,
                uses,
                key,
                prev,
                level,
                is_hook,
                ..
            } => {
                // the parent: follow prev to the first task of a lower level
                let mut parent = None;
                let mut cur = prev.clone();
                let mut guard = 0;
                while let Some(p) = cur {
                    guard += 1;
                    match tasks.get(&(pid.clone(), p.clone())) {
                        Some(x) if guard < 1000 => {
                            if x.level < *level {
                                parent = Some(p.clone());
                                break;
                            }
                            cur = x.prev.clone();
                        }
                        _ => break,
                    }
                }
                let ts = tasks.entry((pid.clone(), tid.clone())).or_default();
                ts.nid = nid.clone();
                ts.kind = kind.clone();
                if ts.state == "error" && state == "running" {
                    ts.caught_own = true;
                }
                ts.state = state.clone();
                ts.states.push(state.clone());
                ts.uses = uses.clone();
                ts.key = key.clone();
                ts.hook = *is_hook;
                ts.prev = prev.clone();
                ts.level = *level;
                ts.parent = parent;
            }
            Tr::StateWrite { pid, tid, new, .. } => {
                // the actual state (a catch revives a task without reporting it)
                let ts = tasks.entry((pid.clone(), tid.clone())).or_default();
                if ts.state == "error" && new == "running" {
                    ts.caught_own = true;
                    // the error that is being taken must not have been reported
                    if ts.error_reported {
                        push(
                            &mut v,
                            format!("caught-error-reported/{}", ts.kind),
                            format!("{} {} ({pid}:{tid}) takes its error with its own catch but had already reported it", ts.kind, ts.nid),
                        );
                    }
                }
                if new == "error" {
                    ts.error_reported = false;
                }
                ts.state = new.clone();
            }
            Tr::Emit { channel: "message", msg } => {
                if msg.retry_times > 0 {
                    continue;
                }
                if !ids.insert(msg.id.clone()) {
                    push(&mut v, "dup-message-id".into(), format!("message id {} was used twice", msg.id));
                }
                let k = (msg.pid.clone(), msg.tid.clone());
                let st = format!("{:?}", msg.state).to_lowercase();
                let ms = per.entry(k.clone()).or_default();
                let ts = tasks.get(&k).cloned().unwrap_or_default();
                if msg.r#type == "branch" {
                    push(&mut v, "branch-message".into(), format!("branch {} generated a message", msg.nid));
                }
                // agreement with the task at generation time (messages built by hook `msg` statements
                // describe the hosting task and carry the statement's key/uses)
                if !ts.kind.is_empty() {
                    let mstate = if st == "created" { "created".to_string() } else { st.clone() };
                    let tstate = if rank(&ts.state) == 1 || rank(&ts.state) == 2 { "created".to_string() } else { ts.state.clone() };
                    let mut diffs = vec![];
                    if msg.nid != ts.nid {
                        diffs.push(format!("nid {} vs {}", msg.nid, ts.nid));
                    }
                    if msg.r#type != ts.kind {
                        diffs.push(format!("type {} vs {}", msg.r#type, ts.kind));
                    }
                    if mstate != tstate {
                        diffs.push(format!("state {mstate} vs {tstate}"));
                    }
                    if ts.kind == "act" && !ts.uses.is_empty() {
                        if msg.uses != ts.uses {
                            diffs.push(format!("uses {} vs {}", msg.uses, ts.uses));
                        }
                        if msg.key != ts.key {
                            diffs.push(format!("key {} vs {}", msg.key, ts.key));
                        }
                    }
                    if !diffs.is_empty() {
                        push(
                            &mut v,
                            format!("message-disagrees/{}", diffs.iter().map(|d| d.split(' ').next().unwrap()).collect::<Vec<_>>().join("+")),
                            format!("message of {} {} ({}:{}) disagrees with the task: {diffs:?}", msg.r#type, msg.nid, msg.pid, msg.tid),
                        );
                    }
                }
                if st == "created" {
                    ms.created.push(i);
                    if ms.created.len() == 2 {
                        push(
                            &mut v,
                            format!("dup-message/{}/created/{}", msg.r#type, action_of(ops, i)),
                            format!("{} {} ({}:{}) generated a second created message", msg.r#type, msg.nid, msg.pid, msg.tid),
                        );
                    }
                    if !ms.terminal.is_empty() {
                        push(
                            &mut v,
                            format!("created-after-terminal/{}", msg.r#type),
                            format!("{} {} ({}:{}) generated a created message after its terminal one", msg.r#type, msg.nid, msg.pid, msg.tid),
                        );
                    }
                    // a parent's created message is generated before any of its children's
                    if let Some(p) = &ts.parent {
                        let pk = (msg.pid.clone(), p.clone());
                        let pt = tasks.get(&pk).cloned().unwrap_or_default();
                        let parent_emits = matches!(pt.kind.as_str(), "workflow" | "step") || (pt.kind == "act" && pt.uses == "acts.core.irq");
                        if parent_emits && per.get(&pk).map(|m| m.created.is_empty()).unwrap_or(true) {
                            push(
                                &mut v,
                                format!("child-before-parent/{}", msg.r#type),
                                format!("{} {} announced before its parent {} {}", msg.r#type, msg.nid, pt.kind, pt.nid),
                            );
                        }
                    }
                } else {
                    if st == "error" {
                        if let Some(t) = tasks.get_mut(&k) {
                            t.error_reported = true;
                        }
                    }
                    let ms = per.get_mut(&k).unwrap();
                    ms.terminal.push((i, st.clone()));
                    if ms.terminal.len() == 2 {
                        push(
                            &mut v,
                            format!("dup-message/{}/{}+{}/{}", msg.r#type, ms.terminal[0].1, st, action_of(ops, i)),
                            format!(
                                "{} {} ({}:{}) generated a second terminal message ({} then {st})",
                                msg.r#type, msg.nid, msg.pid, msg.tid, ms.terminal[0].1
                            ),
                        );
                    }
                }
            }
            _ => {}
        }
    }
    // existence
    let quiescent_end = e.points.last().map(|q| q.quiescent).unwrap_or(false) && !e.arun.horizon_hit;
    if quiescent_end {
        for ((pid, tid), ts) in &tasks {
            let emits = matches!(ts.kind.as_str(), "workflow" | "step") || (ts.kind == "act" && ts.uses == "acts.core.irq");
            let empty = Ms::default();
            let ms = per.get(&(pid.clone(), tid.clone())).unwrap_or(&empty);
            if emits {
                let was_created = ts.states.iter().any(|s| matches!(s.as_str(), "ready" | "interrupted"));
                if was_created && ms.created.is_empty() {
                    push(
                        &mut v,
                        format!("missing-created/{}", ts.kind),
                        format!("{} {} ({pid}:{tid}) started but no created message was generated", ts.kind, ts.nid),
                    );
                }
                // a task that never started (closed while still queued) owes no message
                let started = ts.states.iter().any(|s| matches!(rank(s), 1 | 2));
                if is_terminal_state(&ts.state) && started {
                    if ms.terminal.is_empty() {
                        push(
                            &mut v,
                            format!("missing-terminal/{}/{}", ts.kind, ts.state),
                            format!("{} {} ({pid}:{tid}) ended {} but no terminal message was generated", ts.kind, ts.nid, ts.state),
                        );
                    } else if ms.terminal.last().unwrap().1 != ts.state {
                        push(
                            &mut v,
                            format!("terminal-state-differs/{}/{}-vs-{}", ts.kind, ms.terminal.last().unwrap().1, ts.state),
                            format!(
                                "{} {} ({pid}:{tid}) ended {} but its last terminal message says {}",
                                ts.kind,
                                ts.nid,
                                ts.state,
                                ms.terminal.last().unwrap().1
                            ),
                        );
                    }
                }
            } else if ts.kind == "act" && ts.uses == "acts.core.msg" {
                let ran = ts.states.iter().any(|s| s == "running" || s == "completed");
                if ran && (ms.terminal.iter().filter(|(_, s)| s == "completed").count() != 1 || !ms.created.is_empty()) {
                    push(
                        &mut v,
                        "msg-act-messages".into(),
                        format!(
                            "message act {} ({pid}:{tid}) ran and generated {} created / {:?} terminal messages (exactly one completed expected)",
                            ts.nid,
                            ms.created.len(),
                            ms.terminal.iter().map(|x| x.1.clone()).collect::<Vec<_>>()
                        ),
                    );
                }
            }
        }
    }
    v
}

pub fn full_dump_string(d: &Option<ProcDump>) -> String {
    match d {
        None => "none".into(),
        Some(d) => {
            let mut s = format!("{} {} {:?} {} {} {}", d.pid, d.state, d.err, d.env, d.start_time, d.end_time);
            for t in &d.tasks {
                s += &format!(
                    "\n {} {} {} {} {:?} {} {:?} {} {} {}",
                    t.tid, t.nid, t.kind, t.state, t.prev, t.data, t.err, t.start_time, t.end_time, t.hooks
                );
            }
            s
        }
    }
}

/// C05 (B.6): admission rules are necessary conditions of every accepted call; a rejected
/// terminal-style call changes nothing
pub fn admission(e: &Exec, ops: &[OpRec], declared_outputs: &BTreeMap<String, Vec<String>>) -> V {
    let mut v = vec![];
    let terminal_style = ["complete", "submit", "skip", "remove", "abort", "error", "back"];
    for o in ops {
        let kind = o.spec.kind.as_str();
        let target = o.pre.as_ref().and_then(|d| d.tasks.iter().find(|t| t.tid == o.spec.tid));
        match &o.result {
            Ok(()) => {
                let d = match &o.pre {
                    Some(d) => d,
                    None => {
                        push(
                            &mut v,
                            format!("admitted/no-live-process/{kind}"),
                            format!("{} was accepted although process {} is not live", o.spec.label(), o.spec.pid),
                        );
                        continue;
                    }
                };
                if is_terminal_state(&d.state) {
                    push(
                        &mut v,
                        format!("admitted/finished-process/{kind}"),
                        format!("{} was accepted although process {} is already {}", o.spec.label(), o.spec.pid, d.state),
                    );
                }
                let t = match target {
                    Some(t) => t,
                    None => {
                        push(
                            &mut v,
                            format!("admitted/unknown-task/{kind}"),
                            format!("{} was accepted although the task does not exist", o.spec.label()),
                        );
                        continue;
                    }
                };
                if kind == "push" {
                    if t.kind != "step" {
                        push(
                            &mut v,
                            format!("admitted/push-on-{}", t.kind),
                            format!("{} was accepted on a {} task", o.spec.label(), t.kind),
                        );
                    }
                } else if t.kind != "act" {
                    push(
                        &mut v,
                        format!("admitted/{kind}-on-{}", t.kind),
                        format!("{} was accepted on a {} task", o.spec.label(), t.kind),
                    );
                }
                if terminal_style.contains(&kind) && is_terminal_state(&t.state) {
                    push(
                        &mut v,
                        format!("admitted/{kind}-on-terminal/{}", t.state),
                        format!("{} was accepted although the act is already {}", o.spec.label(), t.state),
                    );
                }
                if let Some(outs) = declared_outputs.get(&t.nid).or_else(|| declared_outputs.get(&t.key)) {
                    for k in outs {
                        if o.spec.opts.get(k).is_none() {
                            push(
                                &mut v,
                                format!("admitted/missing-output/{kind}"),
                                format!("{} was accepted without the declared output '{k}'", o.spec.label()),
                            );
                        }
                    }
                }
            }
            Err(err) => {
                if err == "PANIC" {
                    push(
                        &mut v,
                        format!("panic/{kind}@{}", o.spec.target_class),
                        format!("{} panicked instead of returning an error", o.spec.label()),
                    );
                    continue;
                }
                if terminal_style.contains(&kind) {
                    let emitted = e.trace[o.trace_from..o.trace_to.min(e.trace.len())]
                        .iter()
                        .filter(|t| matches!(t, Tr::Emit { .. }))
                        .count();
                    if emitted > 0 {
                        push(
                            &mut v,
                            format!("rejected-but-emitted/{kind}@{}", o.spec.target_class),
                            format!("{} was rejected ({err}) but generated {emitted} message(s)", o.spec.label()),
                        );
                    }
                    if o.quiescent && full_dump_string(&o.pre) != full_dump_string(&o.post) {
                        push(
                            &mut v,
                            format!("rejected-but-changed/{kind}@{}", o.spec.target_class),
                            format!("{} was rejected ({err}) but changed the process", o.spec.label()),
                        );
                    }
                }
            }
        }
    }
    v
}

fn parse_or_str(s: &str) -> serde_json::Value {
    serde_json::from_str(s).unwrap_or_else(|_| serde_json::Value::String(s.to_string()))
}

/// C11: at every quiescent point the rows of the store agree with the live process
pub fn store_image(e: &Exec) -> V {
    let mut v = vec![];
    for q in &e.points {
        if !q.quiescent {
            continue;
        }
        let stored = match &q.stored {
            Some(s) => s,
            None => continue,
        };
        for (pid, view) in &q.views {
            let d = match view {
                Some(d) => d,
                None => continue,
            };
            let (prow, trows) = match stored.get(pid) {
                Some(x) => x,
                None => continue,
            };
            let prow = match prow {
                Some(p) => p,
                None => {
                    push(&mut v, "proc-row/missing".into(), format!("process {pid} is live ({}) but has no row in the store", d.state));
                    continue;
                }
            };
            if prow["state"].as_str() != Some(d.state.as_str()) {
                push(
                    &mut v,
                    format!("proc-row/state/{}-vs-{}", prow["state"].as_str().unwrap_or("?"), d.state),
                    format!("process {pid}: stored state {} but live state {}", prow["state"], d.state),
                );
            }
            let live_env = parse_or_str(&d.env);
            let row_env = parse_or_str(prow["env"].as_str().unwrap_or(""));
            if live_env != row_env {
                push(&mut v, "proc-row/env".into(), format!("process {pid}: stored env {row_env} but live env {live_env}"));
            }
            let live_err = d.err.as_ref().map(|e| parse_or_str(e));
            let row_err = prow["err"].as_str().map(parse_or_str);
            if live_err != row_err {
                push(&mut v, "proc-row/err".into(), format!("process {pid}: stored err {row_err:?} but live err {live_err:?}"));
            }
            let by: BTreeMap<&str, &serde_json::Value> = trows.iter().map(|t| (t["tid"].as_str().unwrap_or(""), t)).collect();
            for t in &d.tasks {
                let row = match by.get(t.tid.as_str()) {
                    Some(r) => r,
                    None => {
                        push(
                            &mut v,
                            format!("task-row/missing/{}/{}", t.kind, t.state),
                            format!("{} {} ({pid}:{}) is {} in the engine but has no row in the store", t.kind, t.nid, t.tid, t.state),
                        );
                        continue;
                    }
                };
                if row["state"].as_str() != Some(t.state.as_str()) {
                    push(
                        &mut v,
                        format!("task-row/state/{}/{}-vs-{}", t.kind, row["state"].as_str().unwrap_or("?"), t.state),
                        format!("{} {} ({pid}:{}): stored state {} but live state {}", t.kind, t.nid, t.tid, row["state"], t.state),
                    );
                }
                if row["prev"].as_str().map(|s| s.to_string()) != t.prev {
                    push(&mut v, format!("task-row/prev/{}", t.kind), format!("{} {} ({pid}:{}): stored prev {} but live prev {:?}", t.kind, t.nid, t.tid, row["prev"], t.prev));
                }
                let (mut ld, mut rd) = (parse_or_str(&t.data), parse_or_str(row["data"].as_str().unwrap_or("")));
                // `$params` is a cache of the evaluated act parameters, filled on first use and
                // recomputed on demand: not state of the task
                for d in [&mut ld, &mut rd] {
                    if let Some(o) = d.as_object_mut() {
                        o.remove("$params");
                    }
                }
                if ld != rd {
                    let keys: Vec<String> = match (&ld, &rd) {
                        (serde_json::Value::Object(a), serde_json::Value::Object(b)) => {
                            let mut ks: Vec<String> = a.keys().chain(b.keys()).filter(|k| a.get(*k) != b.get(*k)).cloned().collect();
                            ks.sort();
                            ks.dedup();
                            ks
                        }
                        _ => vec![],
                    };
                    let class = if keys.iter().all(|k| k.starts_with('$')) { "engine-flags" } else { "variables" };
                    push(
                        &mut v,
                        format!("task-row/data/{}/{class}", t.kind),
                        format!("{} {} ({pid}:{}): stored data and live data differ in {keys:?}: stored {rd} live {ld}", t.kind, t.nid, t.tid),
                    );
                }
                let (le, re) = (t.err.as_ref().map(|e| parse_or_str(e)), row["err"].as_str().map(parse_or_str));
                if le != re {
                    push(&mut v, format!("task-row/err/{}", t.kind), format!("{} {} ({pid}:{}): stored err {re:?} but live err {le:?}", t.kind, t.nid, t.tid));
                }
                if row["start_time"].as_i64() != Some(t.start_time) || row["end_time"].as_i64() != Some(t.end_time) {
                    push(
                        &mut v,
                        format!("task-row/times/{}", t.kind),
                        format!(
                            "{} {} ({pid}:{}): stored start/end {}/{} but live {}/{}",
                            t.kind, t.nid, t.tid, row["start_time"], row["end_time"], t.start_time, t.end_time
                        ),
                    );
                }
            }
            let live: BTreeSet<&str> = d.tasks.iter().map(|t| t.tid.as_str()).collect();
            for (tid, row) in &by {
                if !live.contains(tid) {
                    push(&mut v, "task-row/extra".into(), format!("the store has a task row {pid}:{tid} ({}) the live process does not know", row["state"]));
                }
            }
        }
    }
    v
}
