//! C10 — Store contract: R-mode. Reference = a map id -> record; every edge (create / update /
//! delete) from every reference state is executed on the real collection and read back in full;
//! at every state a query battery is compared with a reference evaluation (Boolean filter, typed
//! ordering, slicing, true total). Both back ends.
use crate::report::*;
use crate::world::{Cfg, Session, scratch_path};
use acts::DbCollection;
use acts::query::{Cond, Expr, Query};
use serde::Serialize;
use serde::de::DeserializeOwned;
use serde_json::{Value, json};
use std::collections::{BTreeMap, BTreeSet};
use std::sync::Arc;

#[derive(Clone, Copy, Debug, PartialEq)]
pub enum FK {
    Id,
    Str,
    Num,
    OptStr,
    Enum(&'static [&'static str]),
    EnumNum(&'static [i64]),
    Bool,
}

pub struct Schema {
    pub name: &'static str,
    pub fields: Vec<(&'static str, FK)>,
    /// keys used in queries: (id-like, string, number, second number)
    pub keys: (&'static str, &'static str, &'static str, &'static str),
}

pub fn schemas() -> Vec<Schema> {
    use FK::*;
    vec![
        Schema {
            name: "procs",
            fields: vec![
                ("id", Id),
                ("state", Str),
                ("mid", Str),
                ("name", Str),
                ("start_time", Num),
                ("end_time", Num),
                ("timestamp", Num),
                ("model", Str),
                ("env", Str),
                ("err", OptStr),
            ],
            keys: ("id", "state", "start_time", "end_time"),
        },
        Schema {
            name: "tasks",
            fields: vec![
                ("id", Id),
                ("pid", Str),
                ("tid", Str),
                ("node_data", Str),
                ("kind", Str),
                ("prev", OptStr),
                ("name", Str),
                ("state", Str),
                ("data", Str),
                ("err", OptStr),
                ("start_time", Num),
                ("end_time", Num),
                ("hooks", Str),
                ("timestamp", Num),
            ],
            keys: ("id", "state", "start_time", "end_time"),
        },
        Schema {
            name: "messages",
            fields: vec![
                ("id", Id),
                ("tid", Str),
                ("name", Str),
                ("state", Enum(&["created", "completed", "submitted", "backed", "cancelled", "aborted", "skipped", "error", "removed"])),
                ("type", Str),
                ("model", Str),
                ("pid", Str),
                ("nid", Str),
                ("mid", Str),
                ("key", Str),
                ("uses", Str),
                ("inputs", Str),
                ("outputs", Str),
                ("tag", Str),
                ("start_time", Num),
                ("end_time", Num),
                ("chan_id", Str),
                ("chan_pattern", Str),
                ("create_time", Num),
                ("update_time", Num),
                ("retry_times", Num),
                ("status", EnumNum(&[0, 1, 2, 3])),
                ("timestamp", Num),
            ],
            keys: ("id", "pid", "update_time", "retry_times"),
        },
        Schema {
            name: "models",
            fields: vec![
                ("id", Id),
                ("name", Str),
                ("ver", Num),
                ("size", Num),
                ("create_time", Num),
                ("update_time", Num),
                ("data", Str),
                ("timestamp", Num),
            ],
            keys: ("id", "name", "ver", "size"),
        },
        Schema {
            name: "events",
            fields: vec![
                ("id", Id),
                ("name", Str),
                ("mid", Str),
                ("ver", Num),
                ("uses", Str),
                ("params", Str),
                ("create_time", Num),
                ("timestamp", Num),
            ],
            keys: ("id", "mid", "ver", "create_time"),
        },
        Schema {
            name: "packages",
            fields: vec![
                ("id", Id),
                ("desc", Str),
                ("icon", Str),
                ("doc", Str),
                ("version", Str),
                ("schema", Str),
                ("run_as", Enum(&["func", "irq", "msg"])),
                ("resources", Str),
                ("catalog", Enum(&["core", "event", "transform", "form", "ai", "app"])),
                ("built_in", Bool),
                ("create_time", Num),
                ("update_time", Num),
                ("timestamp", Num),
            ],
            keys: ("id", "version", "create_time", "update_time"),
        },
    ]
}

/// numbers of different digit counts, so that text order and numeric order differ
const NUMS: [[i64; 4]; 2] = [[9, 12, 130, 1001], [700, 8, 45, 20000]];
const STRP: [&str; 4] = ["m", "c", "x", "a"];

/// record `i` in version `v` (1 or 2): every field distinct per (i, v) and non-default
pub fn record(s: &Schema, i: usize, v: usize) -> Value {
    let mut m = serde_json::Map::new();
    for (fi, (name, k)) in s.fields.iter().enumerate() {
        let val = match k {
            FK::Id => json!(format!("r{i}")),
            FK::Str => json!(format!("{}{}-{}-{}é", STRP[(i + fi) % 4], v, name, i)),
            FK::Num => json!(NUMS[v - 1][(i + fi) % 4] + fi as i64 * 100_000),
            FK::OptStr => {
                if (i + v + fi) % 2 == 0 {
                    json!(format!("{{\"ecode\":\"{name}{i}{v}\",\"message\":\"m\"}}"))
                } else {
                    Value::Null
                }
            }
            FK::Enum(vs) => json!(vs[(i * 2 + v + fi) % vs.len()]),
            FK::EnumNum(vs) => json!(vs[(i * 2 + v) % vs.len()]),
            FK::Bool => json!((i + v) % 2 == 0),
        };
        m.insert(name.to_string(), val);
    }
    Value::Object(m)
}

type State = BTreeMap<usize, usize>; // record index -> version

fn expected_rows(s: &Schema, st: &State) -> Vec<Value> {
    st.iter().map(|(i, v)| record(s, *i, *v)).collect()
}

#[derive(Clone, Debug)]
pub struct QSpec {
    /// conds: (is_and, exprs (key, op, value))
    pub conds: Vec<(bool, Vec<(String, &'static str, Value)>)>,
    pub order: Vec<(String, bool)>,
    pub offset: usize,
    pub limit: usize,
}

fn build_query(q: &QSpec) -> Query {
    let mut query = Query::new().set_offset(q.offset).set_limit(q.limit);
    for (is_and, exprs) in &q.conds {
        let mut c = if *is_and { Cond::and() } else { Cond::or() };
        for (k, op, v) in exprs {
            let e = match *op {
                "eq" => Expr::eq(k, v.clone()),
                "ne" => Expr::ne(k, v.clone()),
                "lt" => Expr::lt(k, v.clone()),
                "le" => Expr::le(k, v.clone()),
                "gt" => Expr::gt(k, v.clone()),
                _ => Expr::ge(k, v.clone()),
            };
            c = c.push(e);
        }
        query = query.push(c);
    }
    if !q.order.is_empty() {
        query = query.set_order(&q.order);
    }
    query
}

fn eval_expr(row: &Value, k: &str, op: &str, v: &Value) -> bool {
    let l = &row[k];
    match op {
        "eq" => l == v,
        "ne" => l != v,
        _ => match (l.as_f64(), v.as_f64()) {
            (Some(a), Some(b)) => match op {
                "lt" => a < b,
                "le" => a <= b,
                "gt" => a > b,
                _ => a >= b,
            },
            _ => false,
        },
    }
}

fn cmp_vals(a: &Value, b: &Value) -> std::cmp::Ordering {
    match (a.as_f64(), b.as_f64()) {
        (Some(x), Some(y)) => x.partial_cmp(&y).unwrap(),
        _ => a.as_str().unwrap_or("").cmp(b.as_str().unwrap_or("")),
    }
}

/// reference evaluation: (matching rows in requested order, total)
fn reference(rows: &[Value], q: &QSpec) -> (Vec<Value>, usize) {
    let mut m: Vec<Value> = rows
        .iter()
        .filter(|r| {
            q.conds.iter().all(|(is_and, exprs)| {
                if *is_and {
                    exprs.iter().all(|(k, op, v)| eval_expr(r, k, op, v))
                } else {
                    exprs.iter().any(|(k, op, v)| eval_expr(r, k, op, v))
                }
            })
        })
        .cloned()
        .collect();
    if !q.order.is_empty() {
        m.sort_by(|a, b| {
            let mut o = std::cmp::Ordering::Equal;
            for (k, rev) in &q.order {
                let c = cmp_vals(&a[k], &b[k]);
                o = o.then(if *rev { c.reverse() } else { c });
            }
            o
        });
    }
    let total = m.len();
    (m, total)
}

fn shape(q: &QSpec, rows: &[Value]) -> String {
    // which sub-expressions match something: the class of a failing filter
    q.conds
        .iter()
        .map(|(is_and, exprs)| {
            let parts: Vec<String> = exprs
                .iter()
                .map(|(k, op, v)| {
                    let hit = rows.iter().any(|r| eval_expr(r, k, op, v));
                    format!("{op}{}", if hit { "+" } else { "-" })
                })
                .collect();
            format!("{}({})", if *is_and { "and" } else { "or" }, parts.join(","))
        })
        .collect::<Vec<_>>()
        .join("&")
}

struct Ctx<'a, T> {
    coll: Arc<dyn DbCollection<Item = T>>,
    schema: &'a Schema,
    backend: &'static str,
    viols: BTreeMap<String, String>,
    edges: i64,
    queries: i64,
    nontrivial: BTreeSet<String>,
}

impl<'a, T: Serialize + DeserializeOwned + Clone> Ctx<'a, T> {
    fn viol(&mut self, sig: String, what: String) {
        self.viols.entry(sig).or_insert(what);
    }
    fn rec(&self, i: usize, v: usize) -> T {
        serde_json::from_value(record(self.schema, i, v)).unwrap_or_else(|e| panic!("machinery: record for {}: {e}", self.schema.name))
    }
    fn reset(&mut self, n: usize) {
        for i in 0..n {
            let _ = self.coll.delete(&format!("r{i}"));
        }
    }
    fn build(&mut self, st: &State, via_update: bool) {
        for (i, v) in st {
            if via_update && *v == 2 {
                let _ = self.coll.create(&self.rec(*i, 1));
                let _ = self.coll.update(&self.rec(*i, 2));
            } else {
                let _ = self.coll.create(&self.rec(*i, *v));
            }
        }
    }
    /// full read-back: every find, exists and the full scan equal the reference state
    fn readback(&mut self, st: &State, n: usize, ctx: &str) {
        for i in 0..n {
            let id = format!("r{i}");
            let found = self.coll.find(&id);
            let exists = self.coll.exists(&id).unwrap_or(false);
            match (st.get(&i), found) {
                (Some(v), Ok(r)) => {
                    let got = serde_json::to_value(&r).unwrap();
                    let exp = record(self.schema, i, *v);
                    if got != exp {
                        for (f, _) in &self.schema.fields {
                            if got[*f] != exp[*f] {
                                self.viol(
                                    format!("record/{}/{}/{}", self.backend, self.schema.name, f),
                                    format!("{ctx}: field '{f}' of {id} reads {} but {} was written", got[*f], exp[*f]),
                                );
                            }
                        }
                    }
                    if !exists {
                        self.viol(format!("exists/{}/{}", self.backend, self.schema.name), format!("{ctx}: exists({id}) is false for a stored record"));
                    }
                }
                (Some(_), Err(e)) => self.viol(
                    format!("lost/{}/{}", self.backend, self.schema.name),
                    format!("{ctx}: find({id}) fails ({e}) for a stored record"),
                ),
                (None, Ok(_)) => self.viol(
                    format!("ghost/{}/{}", self.backend, self.schema.name),
                    format!("{ctx}: find({id}) returns a record that was deleted / never created"),
                ),
                (None, Err(_)) => {
                    if exists {
                        self.viol(format!("exists/{}/{}", self.backend, self.schema.name), format!("{ctx}: exists({id}) is true for an absent record"));
                    }
                }
            }
        }
        match self.coll.query(&Query::new()) {
            Ok(p) => {
                let mut got: Vec<Value> = p.rows.iter().map(|r| serde_json::to_value(r).unwrap()).collect();
                got.sort_by_key(|v| v["id"].as_str().unwrap_or("").to_string());
                let exp = expected_rows(self.schema, st);
                let same_ids = got.iter().map(|g| g["id"].clone()).collect::<Vec<_>>() == exp.iter().map(|g| g["id"].clone()).collect::<Vec<_>>();
                if !same_ids || p.count != exp.len() {
                    self.viol(
                        format!("scan/{}/{}", self.backend, self.schema.name),
                        format!("{ctx}: the full scan returns {} rows (count {}) but {} are stored", got.len(), p.count, exp.len()),
                    );
                } else if got != exp {
                    self.viol(
                        format!("scan-record/{}/{}", self.backend, self.schema.name),
                        format!("{ctx}: a row of the full scan differs from what was written"),
                    );
                }
            }
            Err(e) => self.viol(format!("scan/{}/{}", self.backend, self.schema.name), format!("{ctx}: full scan fails: {e}")),
        }
    }

    fn run_query(&mut self, rows: &[Value], q: &QSpec) {
        self.queries += 1;
        let (exp, total) = reference(rows, q);
        let exp_page: Vec<Value> = exp.iter().skip(q.offset).take(q.limit).cloned().collect();
        let sh = shape(q, rows);
        if total > 0 && total < rows.len() {
            self.nontrivial.insert(format!("{sh}|{}|{}", q.order.len(), q.offset));
        }
        let res = self.coll.query(&build_query(q));
        let p = match res {
            Ok(p) => p,
            Err(e) => {
                self.viol(format!("query-error/{}", self.backend), format!("{}: query {q:?} fails: {e}", self.schema.name));
                return;
            }
        };
        let got: Vec<Value> = p.rows.iter().map(|r| serde_json::to_value(r).unwrap()).collect();
        let ids = |v: &[Value]| v.iter().map(|r| r["id"].as_str().unwrap_or("").to_string()).collect::<Vec<_>>();
        if p.count != total {
            self.viol(
                format!("query-filter/{}", self.backend),
                format!("{}: {q:?} over {:?}: count {} but {} rows satisfy the filter", self.schema.name, ids(rows), p.count, total),
            );
            return;
        }
        if q.order.is_empty() {
            // unordered: the page is some `limit` rows of the matching set
            let mut g = ids(&got);
            g.sort();
            let e: BTreeSet<String> = ids(&exp).into_iter().collect();
            let bad = g.iter().any(|x| !e.contains(x)) || g.len() != exp_page.len() || g.windows(2).any(|w| w[0] == w[1]);
            if bad {
                self.viol(
                    format!("query-filter/{}", self.backend),
                    format!("{}: {q:?} over {:?}: rows {:?} but the matching set is {:?}", self.schema.name, ids(rows), ids(&got), ids(&exp)),
                );
            }
        } else if ids(&got) != ids(&exp_page) {
            let mut g = ids(&got);
            g.sort();
            let mut e = ids(&exp_page);
            e.sort();
            let kind = if q.offset == 0 && q.limit >= rows.len() && g == e {
                let k = &q.order[0].0;
                let numeric = rows.first().map(|r| r[k].is_number()).unwrap_or(false);
                format!("query-order/{}/{}", self.backend, if numeric { "number" } else { "string" })
            } else if g != e && q.offset == 0 && q.limit >= rows.len() {
                format!("query-filter/{}", self.backend)
            } else {
                format!("query-page/{}", self.backend)
            };
            self.viol(
                kind,
                format!("{}: {q:?} over {:?}: rows {:?}, expected {:?}", self.schema.name, ids(rows), ids(&got), ids(&exp_page)),
            );
        } else if got != exp_page {
            self.viol(
                format!("query-record/{}/{}", self.backend, self.schema.name),
                format!("{}: a queried row differs from what was written", self.schema.name),
            );
        }
    }

    fn battery(&mut self, st: &State, full: bool) {
        let rows = expected_rows(self.schema, st);
        let (kid, kstr, knum, knum2) = self.schema.keys;
        // hit values: those of the first stored record (or of r0/v1 when the table is empty)
        let probe = rows.first().cloned().unwrap_or_else(|| record(self.schema, 0, 1));
        let last = rows.last().cloned().unwrap_or_else(|| record(self.schema, 1, 1));
        let mut exprs: Vec<(String, &'static str, Value)> = vec![];
        for (k, miss) in [(kid, json!("zz-none")), (kstr, json!("zz-none"))] {
            for op in ["eq", "ne"] {
                exprs.push((k.to_string(), op, probe[k].clone()));
                exprs.push((k.to_string(), op, miss.clone()));
            }
        }
        for op in ["eq", "ne", "lt", "le", "gt", "ge"] {
            exprs.push((knum.to_string(), op, probe[knum].clone()));
            exprs.push((knum.to_string(), op, json!(-5)));
        }
        // a smaller alphabet for the two-expression conditions
        let small: Vec<(String, &'static str, Value)> = vec![
            (kid.to_string(), "eq", probe[kid].clone()),
            (kid.to_string(), "eq", last[kid].clone()),
            (kid.to_string(), "eq", json!("zz-none")),
            (kstr.to_string(), "ne", probe[kstr].clone()),
            (kstr.to_string(), "eq", json!("zz-none")),
            (knum.to_string(), "gt", probe[knum].clone()),
            (knum.to_string(), "le", last[knum].clone()),
            (knum2.to_string(), "lt", json!(-5)),
            (knum2.to_string(), "ge", json!(-5)),
        ];
        let mut conds: Vec<(bool, Vec<(String, &'static str, Value)>)> = vec![];
        for e in &exprs {
            conds.push((true, vec![e.clone()]));
            conds.push((false, vec![e.clone()]));
        }
        let mut conds2 = vec![];
        for a in &small {
            for b in &small {
                conds2.push((true, vec![a.clone(), b.clone()]));
                conds2.push((false, vec![a.clone(), b.clone()]));
            }
        }
        let big = 100000;
        let orders: Vec<Vec<(String, bool)>> = vec![
            vec![],
            vec![(knum.to_string(), false)],
            vec![(knum.to_string(), true)],
            vec![(kstr.to_string(), false)],
            vec![(kstr.to_string(), true), (knum2.to_string(), false)],
        ];
        let windows = [(0usize, big), (0, 1), (1, 1), (5, 1), (1, 2)];
        // no filter and single conditions: every order and window
        let mut filters: Vec<Vec<(bool, Vec<(String, &'static str, Value)>)>> = vec![vec![]];
        for c in conds.iter().chain(conds2.iter()) {
            filters.push(vec![c.clone()]);
        }
        for f in &filters {
            let heavy = f.is_empty() || f[0].1.len() == 1;
            for (oi, o) in orders.iter().enumerate() {
                for (wi, (off, lim)) in windows.iter().enumerate() {
                    if !heavy && !(oi == 0 && wi == 0) && !(oi == 1 && wi == 2) {
                        continue;
                    }
                    self.run_query(&rows, &QSpec {
                        conds: f.clone(),
                        order: o.clone(),
                        offset: *off,
                        limit: *lim,
                    });
                }
            }
        }
        // two conditions: the simple conditions paired with each other and with the two-expression ones
        let simple: Vec<_> = small.iter().map(|e| (true, vec![e.clone()])).collect();
        let second: Vec<_> = if full { simple.iter().chain(conds2.iter()).cloned().collect::<Vec<_>>() } else { simple.iter().chain(conds2.iter().step_by(7)).cloned().collect() };
        for a in simple.iter().chain(conds2.iter().step_by(if full { 1 } else { 5 })) {
            for b in &second {
                self.run_query(&rows, &QSpec {
                    conds: vec![a.clone(), b.clone()],
                    order: vec![],
                    offset: 0,
                    limit: big,
                });
                self.run_query(&rows, &QSpec {
                    conds: vec![a.clone(), b.clone()],
                    order: vec![(knum.to_string(), false)],
                    offset: 1,
                    limit: 1,
                });
            }
        }
    }
}

fn all_states(n: usize) -> Vec<State> {
    let mut v: Vec<State> = vec![State::new()];
    for i in 0..n {
        let mut next = vec![];
        for s in &v {
            for ver in 0..3usize {
                let mut t = s.clone();
                if ver > 0 {
                    t.insert(i, ver);
                }
                next.push(t);
            }
        }
        v = next;
    }
    v.sort_by_key(|s| (s.len(), s.values().sum::<usize>()));
    v
}

fn run_collection<T: Serialize + DeserializeOwned + Clone>(
    coll: Arc<dyn DbCollection<Item = T>>,
    schema: &Schema,
    backend: &'static str,
    n: usize,
    seq_depth: usize,
    full_battery: bool,
    out: &mut ItemOut,
) {
    // start from an empty table (the engine registers its built-in packages)
    if let Ok(p) = coll.query(&Query::new()) {
        for r in p.rows {
            let id = serde_json::to_value(&r).unwrap()["id"].as_str().unwrap_or("").to_string();
            let _ = coll.delete(&id);
        }
    }
    let mut c = Ctx {
        coll,
        schema,
        backend,
        viols: BTreeMap::new(),
        edges: 0,
        queries: 0,
        nontrivial: BTreeSet::new(),
    };
    let states = all_states(n);
    for st in &states {
        // the state reached by two different paths gives the same observations
        for via_update in [false, true] {
            c.reset(n);
            c.build(st, via_update);
            c.readback(st, n, &format!("state {st:?} built {}", if via_update { "by create+update" } else { "by create" }));
        }
        c.battery(st, full_battery);
        // every edge from this state
        for i in 0..n {
            let mut edges: Vec<(&str, usize)> = vec![];
            match st.get(&i) {
                None => {
                    edges.push(("create", 1));
                    edges.push(("create", 2));
                    edges.push(("delete", 0));
                    edges.push(("update", 1));
                }
                Some(v) => {
                    edges.push(("update", 3 - v));
                    edges.push(("update", *v));
                    edges.push(("delete", 0));
                }
            }
            for (op, ver) in edges {
                c.reset(n);
                c.build(st, false);
                let mut t = st.clone();
                match op {
                    "create" => {
                        let _ = c.coll.create(&c.rec(i, ver));
                        t.insert(i, ver);
                    }
                    "update" => {
                        let _ = c.coll.update(&c.rec(i, ver));
                        if st.contains_key(&i) {
                            t.insert(i, ver);
                        }
                    }
                    _ => {
                        let _ = c.coll.delete(&format!("r{i}"));
                        t.remove(&i);
                    }
                }
                c.edges += 1;
                c.readback(&t, n, &format!("{op}(r{i} v{ver}) from {st:?}"));
            }
        }
    }
    // plain enumeration of every operation sequence up to a depth, from the empty table
    let mut alphabet: Vec<(&str, usize, usize)> = vec![];
    for i in 0..n.min(2) {
        alphabet.push(("create", i, 1));
        alphabet.push(("update", i, 2));
        alphabet.push(("update", i, 1));
        alphabet.push(("delete", i, 0));
    }
    let mut seqs: u64 = 0;
    let mut idx = vec![0usize; seq_depth];
    'outer: loop {
        c.reset(n);
        let mut st = State::new();
        for (d, k) in idx.iter().enumerate() {
            let (op, i, ver) = alphabet[*k];
            match op {
                "create" => {
                    if st.contains_key(&i) {
                        // creating a duplicate id is not specified by the property
                        break;
                    }
                    let _ = c.coll.create(&c.rec(i, ver));
                    st.insert(i, ver);
                }
                "update" => {
                    let _ = c.coll.update(&c.rec(i, ver));
                    if st.contains_key(&i) {
                        st.insert(i, ver);
                    }
                }
                _ => {
                    let _ = c.coll.delete(&format!("r{i}"));
                    st.remove(&i);
                }
            }
            c.edges += 1;
            c.readback(&st, n, &format!("sequence {:?} step {d}", idx.iter().map(|k| alphabet[*k]).collect::<Vec<_>>()));
        }
        seqs += 1;
        // next sequence
        let mut p = seq_depth;
        loop {
            if p == 0 {
                break 'outer;
            }
            p -= 1;
            idx[p] += 1;
            if idx[p] < alphabet.len() {
                break;
            }
            idx[p] = 0;
        }
    }
    c.reset(n);
    out.count("states", states.len() as i64);
    out.count("edges", c.edges);
    out.count("queries", c.queries);
    out.count("sequences", seqs as i64);
    out.count("evaluations", c.queries + c.edges);
    out.count("distinct_nontrivial", c.nontrivial.len() as i64);
    out.executions += c.edges as u64;
    out.transitions += c.edges as u64;
    for s in &states {
        out.add_state(&format!("{}/{}", backend, schema.name), &format!("{s:?}"));
    }
    let scen = format!("store/{}/{}", backend, schema.name);
    for (sig, what) in c.viols {
        out.violations.push(Violation {
            property: "C10".into(),
            sig: sig.clone(),
            scenario: scen.clone(),
            detail: String::new(),
            what: what.clone(),
            replay: json!({"property": "C10", "signature": sig, "scenario": scen, "what": what,
                "how": "deterministic: run `bin/check C10 quick`; the records are generated by checks/c10.rs::record"}),
        });
    }
    if out.samples.is_empty() {
        out.samples.push(json!({"collection": schema.name, "backend": backend, "record_r0_v1": record(schema, 0, 1),
            "edge": "create(r0 v1) from {} then find/exists/scan read-back", "query": "and(state eq hit, start_time gt hit) order start_time asc offset 1 limit 1"}));
    }
}

pub struct C10;

impl Check for C10 {
    fn info(&self, tier: Tier) -> CheckInfo {
        CheckInfo {
            id: "C10",
            level: "model_checking",
            rule: "per collection (6) and back end (memory, SQLite): reference state = map id -> record version over n records whose fields are all distinct and non-default; every edge {create v1|v2, update to the other / same version, update of an absent id, delete} from every one of the 3^n reference states is executed on the real collection and read back completely (find, exists, full scan, field by field); each state is built by two different paths; at every state a query battery (no filter, one or two conditions, and/or, one or two expressions over id/string/number keys x eq/ne/lt/le/gt/ge x hit/miss, orders none/asc/desc/two keys, windows) is compared with a reference evaluation; plus every operation sequence up to a depth from the empty table. A query is non-trivial when it selects a proper non-empty subset".into(),
            assumptions: vec![
                "creating an id twice and comparing strings with lt/gt are not specified by the property and are not judged".into(),
                "query keys are non-optional columns (NULL comparison semantics differ by design)".into(),
            ],
            budget_s: tier.pick(50, 900),
            exhaustive_when_uncapped: true,
            bounds: json!({"records": tier.pick(3, 4), "sequence_depth": tier.pick(4, 5)}),
        }
    }
    fn items(&self, _tier: Tier) -> Vec<Value> {
        let mut v = vec![];
        for backend in ["memory", "sqlite"] {
            for s in schemas() {
                v.push(json!({"id": format!("store/{backend}/{}", s.name), "backend": backend, "collection": s.name}));
            }
        }
        v
    }
    fn run_item(&self, tier: Tier, item: &Value, out: &mut ItemOut) {
        let backend: &'static str = if item["backend"] == "sqlite" { "sqlite" } else { "memory" };
        let cfg = Cfg {
            sqlite: if backend == "sqlite" { Some(scratch_path("db")) } else { None },
            ..Default::default()
        };
        let sess = Session::new(&cfg);
        let name = item["collection"].as_str().unwrap();
        let schema = schemas().into_iter().find(|s| s.name == name).unwrap();
        let n = tier.pick(3, 4);
        let depth = tier.pick(4, 5);
        let full = tier == Tier::Thorough;
        let h = sess.engine.verif();
        match name {
            "procs" => run_collection(h.procs(), &schema, backend, n, depth, full, out),
            "tasks" => run_collection(h.tasks(), &schema, backend, n, depth, full, out),
            "messages" => run_collection(h.messages(), &schema, backend, n, depth, full, out),
            "models" => run_collection(h.models(), &schema, backend, n, depth, full, out),
            "events" => run_collection(h.events(), &schema, backend, n, depth, full, out),
            _ => run_collection(h.packages(), &schema, backend, n, depth, full, out),
        }
    }
}
