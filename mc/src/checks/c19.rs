//! C19 — Timeout rules: R-mode over (elapsed time, fired rules, task open?) with a virtual clock.
use crate::report::*;
use crate::world::{Cfg, Session, Tr};
use serde_json::{Value, json};
use std::collections::{BTreeMap, BTreeSet, VecDeque};

#[derive(Clone, Debug, PartialEq, Eq, PartialOrd, Ord, Hash)]
pub enum Op {
    Adv(i64),
    Tick,
    /// the client ends the timed act with complete / submit / skip
    Answer(&'static str),
}

#[derive(Clone, Debug)]
pub struct Model {
    pub id: String,
    pub yml: String,
    /// (rule text, limit in ms, id of the first step of the rule)
    pub rules: Vec<(String, i64, String)>,
    /// key / node id of the timed task's node kind
    pub timed_is_step: bool,
    /// the timed step has a catch-all whose steps hold an interrupt: failing the act leaves the step open
    pub catches: bool,
}

fn rule_ms(r: &str) -> i64 {
    match r {
        "1s" => 1_000,
        "2s" => 2_000,
        "1m" => 60_000,
        _ => panic!("machinery: rule {r}"),
    }
}

pub fn models() -> Vec<Model> {
    let sets: Vec<Vec<&str>> = vec![vec!["1s"], vec!["2s"], vec!["1m"], vec!["1s", "2s"], vec!["2s", "1s"], vec!["1s", "1m"], vec!["1s", "2s", "1m"]];
    let mut v = vec![];
    for timed_is_step in [false, true] {
        for set in &sets {
            let mut rules = vec![];
            let mut rule_yml = String::new();
            let ind = if timed_is_step { "    " } else { "        " };
            rule_yml += &format!("{ind}timeout:\n");
            for r in set {
                let sid = format!("t{}", r);
                rule_yml += &format!("{ind}  - on: {r}\n{ind}    steps:\n{ind}      - id: {sid}\n{ind}        acts:\n{ind}          - uses: acts.core.msg\n{ind}            key: fired-{r}\n");
                rules.push((r.to_string(), rule_ms(r), sid));
            }
            let yml = if timed_is_step {
                // the process keeps running after the timed task was answered (a second interrupt)
                format!("id: m19\nsteps:\n  - id: s1\n{rule_yml}    acts:\n      - uses: acts.core.irq\n        key: a1\n  - id: s2\n    acts:\n      - uses: acts.core.irq\n        key: a2\n")
            } else {
                format!("id: m19\nsteps:\n  - id: s1\n    acts:\n      - uses: acts.core.irq\n        key: a1\n{rule_yml}      - uses: acts.core.irq\n        key: a2\n  - id: s2\n")
            };
            v.push(Model {
                id: format!("{}/{}", if timed_is_step { "step" } else { "act" }, set.join("+")),
                yml,
                rules,
                timed_is_step,
                catches: false,
            });
        }
    }
    // a timed step with a catch: the client fails the act, the catch revives the step, which stays
    // open on the interrupt of its catch steps while the rules keep counting from its opening
    for set in [vec!["1s"], vec!["2s"], vec!["1s", "2s"], vec!["1s", "1m"]] {
        let mut rules = vec![];
        let mut rule_yml = String::from("    timeout:\n");
        for r in &set {
            let sid = format!("t{}", r);
            rule_yml += &format!("      - on: {r}\n        steps:\n          - id: {sid}\n            acts:\n              - uses: acts.core.msg\n                key: fired-{r}\n");
            rules.push((r.to_string(), rule_ms(r), sid));
        }
        let yml = format!("id: m19\nsteps:\n  - id: s1\n{rule_yml}    catches:\n      - steps:\n          - id: cfix\n            acts:\n              - uses: acts.core.irq\n                key: fix\n    acts:\n      - uses: acts.core.irq\n        key: a1\n  - id: s2\n    acts:\n      - uses: acts.core.irq\n        key: a2\n");
        v.push(Model {
            id: format!("step-with-catch/{}", set.join("+")),
            yml,
            rules,
            timed_is_step: true,
            catches: true,
        });
    }
    // a timed step around a timed act: the same rule text on both, and different texts
    for (rs, ra) in [("1s", "1s"), ("1s", "2s"), ("2s", "1s")] {
        let yml = format!(
            "id: m19\nsteps:\n  - id: s1\n    timeout:\n      - on: {rs}\n        steps:\n          - id: ts{rs}\n            acts:\n              - uses: acts.core.msg\n                key: fired-step-{rs}\n    acts:\n      - uses: acts.core.irq\n        key: a1\n        timeout:\n          - on: {ra}\n            steps:\n              - id: ta{ra}\n                acts:\n                  - uses: acts.core.msg\n                    key: fired-act-{ra}\n  - id: s2\n    acts:\n      - uses: acts.core.irq\n        key: a2\n"
        );
        v.push(Model {
            id: format!("both/step-{rs}+act-{ra}"),
            yml,
            rules: vec![(format!("step:{rs}"), rule_ms(rs), format!("ts{rs}")), (format!("act:{ra}"), rule_ms(ra), format!("ta{ra}"))],
            timed_is_step: false,
            catches: false,
        });
    }
    v
}

#[derive(Clone, Debug, PartialEq, Eq, PartialOrd, Ord, Hash)]
struct Ref {
    elapsed: i64,
    fired: BTreeSet<usize>,
    open: bool,
    /// how the timed act was closed: part of the state, the implementation may treat the
    /// terminal states differently
    closed_by: &'static str,
    /// the interrupt a1 has been answered (the timed step can still be open: caught error)
    answered: bool,
}

const ADV: [i64; 4] = [300, 800, 1_100, 61_000];
const CAP_MS: i64 = 130_000;

struct Impl {
    sess: Session,
    a1: String,
}

fn new_impl(m: &Model) -> Impl {
    let mut sess = Session::new(&Cfg::keep());
    sess.deploy(&m.yml);
    let _ = sess.start("m19", &crate::checks::common::vars_of(&json!({"pid": "p1"})));
    sess.drain();
    let a1 = sess.tid_of_key("p1", "a1").unwrap_or_default();
    Impl { sess, a1 }
}

fn apply(im: &mut Impl, op: &Op) {
    match op {
        Op::Adv(ms) => im.sess.w.advance_ms(*ms),
        Op::Tick => im.sess.tick(),
        Op::Answer(kind) => {
            let a1 = im.a1.clone();
            let opts = if *kind == "error" { json!({"ecode": "e1", "message": "failed"}) } else { json!({}) };
            let _ = im.sess.act(kind, "p1", &a1, &crate::checks::common::vars_of(&opts));
        }
    }
    im.sess.drain();
}

/// what the implementation shows: instances of each rule's first step, state of the timed task, elapsed
fn observe(im: &Impl, m: &Model) -> (Vec<usize>, String, i64) {
    let trace = im.sess.w.trace_snapshot();
    let mut counts = vec![0usize; m.rules.len()];
    for t in &trace {
        if let Tr::TaskEvent { nid, state, .. } = t {
            if state == "ready" {
                for (i, (_, _, sid)) in m.rules.iter().enumerate() {
                    if nid == sid {
                        counts[i] += 1;
                    }
                }
            }
        }
    }
    let d = im.sess.dump_light("p1");
    let timed = d.as_ref().and_then(|d| {
        d.tasks
            .iter()
            .find(|t| if m.timed_is_step { t.nid == "s1" } else { t.key == "a1" })
            .map(|t| (t.state.clone(), t.start_time))
    });
    let (state, start) = timed.unwrap_or(("gone".into(), 0));
    (counts, state, im.sess.w.now_ms() - start)
}

fn explore(m: &Model, depth: usize, out: &mut ItemOut) {
    let scen = format!("timeout/{}", m.id);
    let init = Ref {
        elapsed: 0,
        fired: BTreeSet::new(),
        open: true,
        closed_by: "",
        answered: false,
    };
    let mut seen: BTreeSet<Ref> = BTreeSet::new();
    seen.insert(init.clone());
    let mut queue: VecDeque<(Ref, Vec<Op>)> = VecDeque::new();
    queue.push_back((init, vec![]));
    let mut viols: BTreeMap<String, (String, Vec<Op>)> = BTreeMap::new();
    let mut edges = 0i64;
    while let Some((s, path)) = queue.pop_front() {
        if path.len() >= depth {
            continue;
        }
        let mut ops: Vec<Op> = vec![Op::Tick];
        if s.elapsed < CAP_MS {
            for a in ADV {
                ops.push(Op::Adv(a));
            }
        }
        if s.open && !s.answered {
            for k in ["complete", "submit", "skip"] {
                ops.push(Op::Answer(k));
            }
            if m.catches {
                ops.push(Op::Answer("error"));
            }
        }
        for op in ops {
            let mut im = new_impl(m);
            let mut cur = Ref {
                elapsed: 0,
                fired: BTreeSet::new(),
                open: true,
                closed_by: "",
                answered: false,
            };
            let mut full = path.clone();
            full.push(op.clone());
            let mut early = false;
            for (k, o) in full.iter().enumerate() {
                let (before, _, elapsed_impl) = observe(&im, m);
                apply(&mut im, o);
                let (after, state, _) = observe(&im, m);
                let last = k + 1 == full.len();
                // reference step
                let mut nxt = cur.clone();
                match o {
                    Op::Adv(ms) => nxt.elapsed += ms,
                    Op::Answer(k) => {
                        nxt.answered = true;
                        if *k == "error" && m.catches {
                            // the catch of the timed step takes the error: the step stays open
                            nxt.closed_by = "error-caught";
                        } else {
                            nxt.open = false;
                            nxt.closed_by = k;
                        }
                    }
                    Op::Tick => {
                        if cur.open {
                            for (i, (_, limit, _)) in m.rules.iter().enumerate() {
                                if !cur.fired.contains(&i) && cur.elapsed >= *limit {
                                    nxt.fired.insert(i);
                                }
                            }
                        }
                    }
                }
                if last {
                    edges += 1;
                    // conformance of this edge
                    for (i, (rule, limit, sid)) in m.rules.iter().enumerate() {
                        let started_now = after[i] - before[i];
                        let should = nxt.fired.contains(&i) && !cur.fired.contains(&i);
                        // the engine's own elapsed time within 2 ms of the limit is not judged
                        let boundary = (elapsed_impl - limit).abs() <= 2;
                        if started_now > 0 && !should && !boundary {
                            let class = if !matches!(o, Op::Tick) {
                                format!("fired/without-tick/{rule}")
                            } else if !cur.open {
                                format!("fired/after-task-terminal/{rule}")
                            } else if cur.fired.contains(&i) {
                                format!("fired/twice/{rule}")
                            } else {
                                early = true;
                                format!("fired/early/{rule}")
                            };
                            viols.entry(class).or_insert((
                                format!("after {full:?}: rule {rule} started its step {sid} ({started_now}x) at elapsed {elapsed_impl} ms, task open={}, already fired={}", cur.open, cur.fired.contains(&i)),
                                full.clone(),
                            ));
                        }
                        if started_now == 0 && should && !boundary {
                            viols.entry(format!("not-fired/{rule}")).or_insert((
                                format!("after {full:?}: rule {rule} did not start {sid} at the tick with elapsed {elapsed_impl} ms >= {limit} ms while the task was open"),
                                full.clone(),
                            ));
                        }
                        if started_now > 1 {
                            viols.entry(format!("fired/multiple-instances/{rule}")).or_insert((format!("after {full:?}: {started_now} instances of {sid} were started by one tick"), full.clone()));
                        }
                    }
                    // firing does not close the timed task
                    if nxt.open && matches!(o, Op::Answer("error")) && state != "running" {
                        viols.entry("caught-error-closed-the-timed-step".into()).or_insert((format!("after {full:?}: the timed step is {state} although its catch took the error"), full.clone()));
                    }
                    if cur.open && !matches!(o, Op::Answer(_)) && crate::amode::is_terminal_state(&state) {
                        viols.entry("closed-by-timeout".into()).or_insert((format!("after {full:?}: the timed task is {state} although it was not answered"), full.clone()));
                    }
                    if cur.open && !matches!(o, Op::Answer(_)) && state == "gone" {
                        viols.entry("timed-task-gone".into()).or_insert((format!("after {full:?}: the timed task vanished"), full.clone()));
                    }
                }
                cur = nxt;
            }
            let _ = early;
            let mut key = cur.clone();
            key.elapsed = key.elapsed.min(CAP_MS);
            if seen.insert(key.clone()) {
                queue.push_back((key, full));
            }
        }
    }
    out.count("states", seen.len() as i64);
    out.count("edges", edges);
    out.count("evaluations", edges);
    out.count("distinct_nontrivial", seen.iter().filter(|s| !s.fired.is_empty()).count() as i64);
    out.executions += edges as u64;
    out.transitions += edges as u64;
    for s in &seen {
        out.add_state(&scen, &format!("{s:?}"));
    }
    if out.samples.is_empty() {
        out.samples.push(json!({"scenario": scen, "model": m.yml, "alphabet": ["Adv(300)", "Adv(800)", "Adv(1100)", "Adv(61000)", "Tick", "Answer(complete)", "Answer(submit)", "Answer(skip)"],
            "example_path": "[Adv(800), Tick, Adv(300), Tick] -> rule 1s starts its step at the second tick only", "reference_states": seen.len()}));
    }
    for (sig, (what, path)) in viols {
        out.violations.push(Violation {
            property: "C19".into(),
            sig: sig.clone(),
            scenario: scen.clone(),
            detail: String::new(),
            what: what.clone(),
            replay: json!({"property": "C19", "signature": sig, "scenario": scen, "what": what, "operations": format!("{path:?}"), "model": m.yml}),
        });
    }
}

pub struct C19;

impl Check for C19 {
    fn info(&self, tier: Tier) -> CheckInfo {
        CheckInfo {
            id: "C19",
            level: "model_checking",
            rule: "a timed interrupt act, a timed step around it, both (same and different rule texts), or a timed step with a catch whose steps keep it open after the client failed its act, with every rule set from {1s}, {2s}, {1m}, {1s,2s}, {2s,1s}, {1s,1m}, {1s,2s,1m}; reference state = (elapsed ms, rules fired, task open); breadth-first over every state reachable within the depth with the alphabet {advance 300 | 800 | 1100 | 61000 ms, tick, answer with complete | submit | skip (| error where the step catches)}; every edge replayed on a fresh real engine under a virtual clock; the instances of each rule's step created by the edge must equal the prediction (fires at the first tick with elapsed >= limit while open, once, never after the task ended, never without a tick) and the timed task must stay open".into(),
            assumptions: vec![
                "virtual clock (hook); ticks are the explicit operation the timer issues; an elapsed time within 2 ms of a limit is not judged".into(),
            ],
            budget_s: tier.pick(50, 600),
            exhaustive_when_uncapped: true,
            bounds: json!({"depth": tier.pick(6, 10)}),
        }
    }
    fn items(&self, tier: Tier) -> Vec<Value> {
        models().iter().map(|m| json!({"id": format!("timeout/{}", m.id), "model": m.id, "depth": tier.pick(6, 10)})).collect()
    }
    fn run_item(&self, _tier: Tier, item: &Value, out: &mut ItemOut) {
        let m = models().into_iter().find(|m| m.id == item["model"].as_str().unwrap()).unwrap();
        explore(&m, item["depth"].as_u64().unwrap() as usize, out);
    }
}
