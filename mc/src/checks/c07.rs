//! C07 — Data flow and scoping. Every program of a bounded family of writers and readers (set,
//! code return, $set, $get, client options with and without declared outputs, templates,
//! conditions) over names declared in exactly one enclosing scope is executed and every read,
//! the terminal outputs and the final task data are compared with a reference environment.
use super::common::vars_of;
use crate::amode::{digest, trace_log};
use crate::explore::Chooser;
use crate::report::*;
use crate::world::{Cfg, Session, Tr};
use serde_json::{Value, json};
use std::collections::BTreeMap;

#[derive(Clone, Copy, Debug, PartialEq, Eq, PartialOrd, Ord)]
pub enum K {
    /// declared by the workflow (inputs and outputs)
    X,
    /// declared by the workflow (inputs and outputs)
    Y,
    /// declared by the first step (inputs)
    Z,
    /// private key
    P,
}
impl K {
    pub fn name(&self) -> &'static str {
        match self {
            K::X => "x",
            K::Y => "y",
            K::Z => "z",
            K::P => "__p",
        }
    }
}

#[derive(Clone, Debug, PartialEq)]
pub enum E {
    Const(i64),
    /// global + constant
    Plus(K, i64),
}

#[derive(Clone, Debug, PartialEq)]
pub enum ActD {
    /// acts.transform.set
    Set(Vec<(K, i64)>),
    /// acts.transform.code: `return { k: e }`
    CodeRet(K, E),
    /// acts.transform.code: `$set("k", v)`
    CodeSet(K, i64),
    /// acts.transform.code: `$set("dst", $get("src") + 20)`
    CodeCopy(K, K),
    /// interrupt; `declared`: outputs [x]; the option maps the client sends, one after another until one is accepted
    Irq { declared: bool, tries: Vec<Vec<(&'static str, i64)>> },
    /// message act whose params read every name in both forms
    Msg,
    /// message act with `if: k >= c`
    MsgIf(K, i64),
}

#[derive(Clone, Debug, PartialEq)]
pub struct Prog {
    pub s1: Vec<ActD>,
    pub s2: Vec<ActD>,
    pub start_x: Option<i64>,
    /// added to every constant (second process of a pair)
    pub offset: i64,
    /// the writers sit in one branch and the readers in a sibling that `needs` it
    pub branches: bool,
}

fn act_name(a: &ActD) -> String {
    match a {
        ActD::Set(v) => format!("set({})", v.iter().map(|(k, x)| format!("{}={x}", k.name())).collect::<Vec<_>>().join(",")),
        ActD::CodeRet(k, E::Const(c)) => format!("ret({}={c})", k.name()),
        ActD::CodeRet(k, E::Plus(s, c)) => format!("ret({}={}+{c})", k.name(), s.name()),
        ActD::CodeSet(k, v) => format!("$set({}={v})", k.name()),
        ActD::CodeCopy(d, s) => format!("$set({}=$get({})+20)", d.name(), s.name()),
        ActD::Irq { declared, tries } => format!(
            "irq{}[{}]",
            if *declared { "!x" } else { "" },
            tries.iter().map(|t| t.iter().map(|(k, v)| if k.starts_with('@') { k[1..].to_string() } else { format!("{k}={v}") }).collect::<Vec<_>>().join(",")).collect::<Vec<_>>().join(" then ")
        ),
        ActD::Msg => "read".into(),
        ActD::MsgIf(k, c) => format!("if({}>={c})", k.name()),
    }
}

impl Prog {
    pub fn name(&self) -> String {
        format!(
            "{}s1[{}] s2[{}]{}{}",
            if self.branches { "needs:" } else { "" },
            self.s1.iter().map(act_name).collect::<Vec<_>>().join(" "),
            self.s2.iter().map(act_name).collect::<Vec<_>>().join(" "),
            self.start_x.map(|x| format!(" start x={x}")).unwrap_or_default(),
            if self.offset != 0 { format!(" +{}", self.offset) } else { String::new() }
        )
    }
    fn act_yml(&self, a: &ActD, idx: usize, in_s1: bool, ind: &str) -> String {
        let o = self.offset;
        let mut s = format!("{ind}- id: a{idx}\n");
        match a {
            ActD::Set(v) => {
                s += &format!("{ind}  uses: acts.transform.set\n{ind}  params:\n");
                for (k, x) in v {
                    s += &format!("{ind}    {}: {}\n", k.name(), x + o);
                }
            }
            ActD::CodeRet(k, e) => {
                let e = match e {
                    E::Const(c) => format!("{}", c + o),
                    E::Plus(g, c) => format!("{} + {}", g.name(), c),
                };
                s += &format!("{ind}  uses: acts.transform.code\n{ind}  params: 'return {{ \"{}\": {e} }};'\n", k.name());
            }
            ActD::CodeSet(k, v) => {
                s += &format!("{ind}  uses: acts.transform.code\n{ind}  params: '$set(\"{}\", {});'\n", k.name(), v + o);
            }
            ActD::CodeCopy(d, g) => {
                s += &format!("{ind}  uses: acts.transform.code\n{ind}  params: '$set(\"{}\", $get(\"{}\") + 20);'\n", d.name(), g.name());
            }
            ActD::Irq { declared, .. } => {
                s += &format!("{ind}  uses: acts.core.irq\n{ind}  key: k{idx}\n");
                if *declared {
                    s += &format!("{ind}  outputs:\n{ind}    x:\n");
                }
            }
            ActD::Msg | ActD::MsgIf(..) => {
                s += &format!("{ind}  uses: acts.core.msg\n{ind}  key: r{idx}\n");
                if let ActD::MsgIf(k, c) = a {
                    s += &format!("{ind}  if: {} >= {}\n", k.name(), c + o);
                }
                // one template (one script evaluation) reads every name both ways
                let zs = if in_s1 { ", z, $get(\"z\")" } else { "" };
                s += &format!("{ind}  params:\n{ind}    v: '{{{{ [x, y, $get(\"x\"), $get(\"y\"), $get(\"__p\"), $get(\"__q\"){zs}] }}}}'\n");
            }
        }
        s
    }
    pub fn yml(&self, mid: &str) -> String {
        let o = self.offset;
        // `message` (like `ecode` and `to`, a name some actions use for themselves) is an ordinary declared variable here
        let mut s = format!("id: {mid}\ninputs:\n  x: {}\n  y: {}\n  message: {}\noutputs:\n  x:\n  y:\n", o, o, o);
        if !self.branches {
            s += &format!("steps:\n  - id: s1\n    inputs:\n      z: {o}\n");
            if !self.s1.is_empty() {
                s += "    acts:\n";
            }
            for (i, a) in self.s1.iter().enumerate() {
                s += &self.act_yml(a, i, true, "      ");
            }
            s += "  - id: s2\n    acts:\n";
            for (i, a) in self.s2.iter().enumerate() {
                s += &self.act_yml(a, self.s1.len() + i, false, "      ");
            }
            s += &self.act_yml(&ActD::Msg, self.s1.len() + self.s2.len(), false, "      ");
        } else {
            // writers in b1, readers in b2 which needs b1, a last reader in the next step
            s += &format!("steps:\n  - id: s1\n    inputs:\n      z: {o}\n    branches:\n      - id: b1\n        if: \"true\"\n        steps:\n          - id: t1\n");
            if !self.s1.is_empty() {
                s += "            acts:\n";
            }
            for (i, a) in self.s1.iter().enumerate() {
                s += &self.act_yml(a, i, true, "              ");
            }
            s += "      - id: b2\n        needs: [b1]\n        steps:\n          - id: t2\n            acts:\n";
            for (i, a) in self.s2.iter().enumerate() {
                s += &self.act_yml(a, self.s1.len() + i, true, "              ");
            }
            s += &self.act_yml(&ActD::Msg, self.s1.len() + self.s2.len(), true, "              ");
            s += "  - id: s2\n    acts:\n";
            s += &self.act_yml(&ActD::Msg, self.s1.len() + self.s2.len() + 1, false, "      ");
        }
        s
    }
}

// ---- reference environment ------------------------------------------------------------------------

#[derive(Clone, Debug, PartialEq)]
pub enum Obs {
    /// the reader act `idx` ran and its params show these values (None = null)
    Read { idx: usize, vals: BTreeMap<&'static str, Option<i64>> },
    /// the conditional reader act `idx` was skipped
    Skipped { idx: usize },
    /// the client's option map number `n` for the interrupt `idx` was accepted / refused
    Answer { idx: usize, n: usize, ok: bool },
}

pub struct Ref {
    pub obs: Vec<Obs>,
    pub x: i64,
    pub y: i64,
    pub z: i64,
    pub message: i64,
    /// acts that may hold a private key in their own data: (idx, key)
    pub private_holders: Vec<(usize, String)>,
}

pub fn reference(p: &Prog) -> Ref {
    let o = p.offset;
    let mut x = p.start_x.map(|v| v + o).unwrap_or(o);
    let mut y = o;
    let mut z = o;
    let mut message = o;
    let mut obs = vec![];
    let mut holders = vec![];
    let mut all: Vec<(ActD, bool)> = vec![];
    for a in &p.s1 {
        all.push((a.clone(), true));
    }
    for a in &p.s2 {
        all.push((a.clone(), p.branches));
    }
    all.push((ActD::Msg, p.branches));
    if p.branches {
        all.push((ActD::Msg, false));
    }
    for (idx, (a, z_scope)) in all.iter().enumerate() {
        let mut write = |k: &str, v: i64, x: &mut i64, y: &mut i64, z: &mut i64| match k {
            "message" => message = v,
            "x" => *x = v,
            "y" => *y = v,
            "z" if *z_scope => *z = v,
            _ => {
                if k.starts_with("__") {
                    holders.push((idx, k.to_string()));
                }
            }
        };
        match a {
            ActD::Set(v) => {
                for (k, c) in v {
                    write(k.name(), c + o, &mut x, &mut y, &mut z);
                }
            }
            ActD::CodeRet(k, e) => {
                let v = match e {
                    E::Const(c) => c + o,
                    E::Plus(g, c) => {
                        (match g {
                            K::X => x,
                            K::Y => y,
                            K::Z => z,
                            K::P => unreachable!(),
                        }) + c
                    }
                };
                write(k.name(), v, &mut x, &mut y, &mut z);
            }
            ActD::CodeSet(k, c) => write(k.name(), c + o, &mut x, &mut y, &mut z),
            ActD::CodeCopy(d, g) => {
                let v = match g {
                    K::X => x,
                    K::Y => y,
                    K::Z => z,
                    K::P => unreachable!(),
                };
                write(d.name(), v + 20, &mut x, &mut y, &mut z);
            }
            ActD::Irq { declared, tries } => {
                for (n, t) in tries.iter().enumerate() {
                    let ok = !*declared || t.iter().any(|(k, _)| *k == "x");
                    obs.push(Obs::Answer { idx, n, ok });
                    if ok {
                        for (k, c) in t {
                            // "@submit" is not an option: it makes the client answer with submit
                            if k.starts_with('@') || (*declared && *k != "x") {
                                continue;
                            }
                            write(k, c + o, &mut x, &mut y, &mut z);
                        }
                        break;
                    }
                }
            }
            ActD::Msg | ActD::MsgIf(..) => {
                if let ActD::MsgIf(k, c) = a {
                    let v = match k {
                        K::X => x,
                        K::Y => y,
                        K::Z => z,
                        K::P => unreachable!(),
                    };
                    if v < c + o {
                        obs.push(Obs::Skipped { idx });
                        continue;
                    }
                }
                let mut vals: BTreeMap<&'static str, Option<i64>> = BTreeMap::new();
                vals.insert("x", Some(x));
                vals.insert("y", Some(y));
                vals.insert("gx", Some(x));
                vals.insert("gy", Some(y));
                vals.insert("gp", None);
                vals.insert("gq", None);
                if *z_scope {
                    vals.insert("z", Some(z));
                    vals.insert("gz", Some(z));
                }
                obs.push(Obs::Read { idx, vals });
            }
        }
    }
    Ref {
        obs,
        x,
        y,
        z,
        message,
        private_holders: holders,
    }
}

fn has_private_key(v: &Value) -> Option<String> {
    match v {
        Value::Object(m) => {
            for (k, x) in m {
                if k.starts_with("__") {
                    return Some(k.clone());
                }
                if let Some(p) = has_private_key(x) {
                    return Some(p);
                }
            }
            None
        }
        Value::Array(a) => a.iter().find_map(has_private_key),
        _ => None,
    }
}

/// compare what process `pid` did with the reference of its program
fn judge(sess: &Session, trace: &[Tr], pid: &str, p: &Prog, answers: &[(usize, usize, bool)], push: &mut dyn FnMut(String, String)) {
    let r = reference(p);
    let n_acts = p.s1.len() + p.s2.len() + if p.branches { 2 } else { 1 };
    // observed reads, skips
    let mut got: Vec<Obs> = vec![];
    let mut order: Vec<(usize, Obs)> = vec![];
    for (i, t) in trace.iter().enumerate() {
        match t {
            Tr::Emit { channel: "message", msg } if msg.pid == pid && msg.r#type == "act" && msg.key.starts_with('r') && msg.state == acts::MessageState::Completed => {
                let idx: usize = msg.key[1..].parse().unwrap_or(999);
                let params = msg.inputs.get::<Value>("params").unwrap_or(Value::Null);
                let arr = params.get("v").and_then(|v| v.as_array()).cloned().unwrap_or_default();
                if arr.len() != 6 && arr.len() != 8 {
                    push("read/shape".into(), format!("reader a{idx} of {pid}: params = {params}"));
                }
                let mut vals: BTreeMap<&'static str, Option<i64>> = BTreeMap::new();
                for (n, k) in ["x", "y", "gx", "gy", "gp", "gq", "z", "gz"].into_iter().enumerate() {
                    if let Some(v) = arr.get(n) {
                        vals.insert(k, v.as_i64().or_else(|| v.as_f64().map(|f| f as i64)));
                        if !v.is_null() && !v.is_number() {
                            push(format!("read/not-a-number/{k}"), format!("reader a{idx} of {pid}: {k} = {v}"));
                        }
                    }
                }
                order.push((i, Obs::Read { idx, vals }));
            }
            Tr::TaskEvent { pid: q, nid, state, .. } if q == pid && state == "skipped" && nid.starts_with('a') => {
                if let Ok(idx) = nid[1..].parse::<usize>() {
                    order.push((i, Obs::Skipped { idx }));
                }
            }
            _ => {}
        }
    }
    for (_, o) in order {
        got.push(o);
    }
    let want_reads: Vec<&Obs> = r.obs.iter().filter(|o| !matches!(o, Obs::Answer { .. })).collect();
    let got_reads: Vec<&Obs> = got.iter().collect();
    for w in &want_reads {
        match w {
            Obs::Read { idx, vals } => match got_reads.iter().find(|g| matches!(g, Obs::Read { idx: i, .. } if i == idx)) {
                Some(Obs::Read { vals: gv, .. }) => {
                    for (k, v) in vals {
                        let g = gv.get(k).cloned().unwrap_or(None);
                        if g != *v {
                            let kind = match *k {
                                "gp" | "gq" => "private-key-visible".to_string(),
                                k if k.starts_with('g') => format!("stale-read/$get/{}", &k[1..]),
                                k => format!("stale-read/global/{k}"),
                            };
                            push(kind, format!("reader a{idx} of {pid} sees {k} = {g:?}, the reference environment has {v:?} (program {})", p.name()));
                        }
                    }
                }
                _ => {
                    if got_reads.iter().any(|g| matches!(g, Obs::Skipped { idx: i } if i == idx)) {
                        push("condition/skipped-instead-of-run".into(), format!("conditional reader a{idx} of {pid} was skipped, its condition holds in the reference environment"));
                    } else {
                        push("reader-missing".into(), format!("reader a{idx} of {pid} produced no message"));
                    }
                }
            },
            Obs::Skipped { idx } => {
                if got_reads.iter().any(|g| matches!(g, Obs::Read { idx: i, .. } if i == idx)) {
                    push("condition/run-instead-of-skipped".into(), format!("conditional reader a{idx} of {pid} ran, its condition does not hold in the reference environment"));
                }
            }
            _ => {}
        }
    }
    // client answers
    let want_answers: Vec<(usize, usize, bool)> = r
        .obs
        .iter()
        .filter_map(|o| match o {
            Obs::Answer { idx, n, ok } => Some((*idx, *n, *ok)),
            _ => None,
        })
        .collect();
    if want_answers != answers {
        push(
            "answers".into(),
            format!("client answers (interrupt, option map, accepted) of {pid}: {answers:?}, expected {want_answers:?}"),
        );
    }
    // terminal outputs
    let term: Vec<&acts::Message> = trace
        .iter()
        .filter_map(|t| match t {
            Tr::Emit { channel: "complete", msg } if msg.pid == pid => Some(msg),
            _ => None,
        })
        .collect();
    match term.first() {
        None => push("not-finished".into(), format!("{pid} did not complete")),
        Some(m) => {
            let out: Value = m.outputs.clone().into();
            let want = json!({"data": null, "x": r.x, "y": r.y});
            if out != want {
                push("terminal-outputs".into(), format!("terminal outputs of {pid}: {out}, expected {want}"));
            }
        }
    }
    // final task data
    if let Some(d) = sess.dump(pid) {
        for t in &d.tasks {
            let data: Value = serde_json::from_str(&t.data).unwrap_or(Value::Null);
            let Some(m) = data.as_object() else { continue };
            if t.tid == "$" {
                let keys: Vec<&str> = m.keys().map(|s| s.as_str()).filter(|k| !k.starts_with('$')).collect();
                let mut want = vec!["data", "message", "pid", "x", "y"];
                want.sort();
                if keys != want {
                    push("root-data/keys".into(), format!("the root task of {pid} holds the keys {keys:?}, expected {want:?}"));
                }
                if m.get("x") != Some(&json!(r.x)) || m.get("y") != Some(&json!(r.y)) || m.get("message") != Some(&json!(r.message)) {
                    push(
                        "root-data/values".into(),
                        format!("the root task of {pid} holds x={:?} y={:?} message={:?}, expected {} {} {}", m.get("x"), m.get("y"), m.get("message"), r.x, r.y, r.message),
                    );
                }
            }
            if t.nid == "s1" && m.get("z") != Some(&json!(r.z)) {
                push("scope-data/z".into(), format!("the declaring step s1 of {pid} holds z={:?}, expected {}", m.get("z"), r.z));
            }
            if t.nid == "s2" && m.contains_key("z") {
                push("leak/z-in-sibling-step".into(), format!("step s2 of {pid} holds z={:?}, which only s1 declares", m.get("z")));
            }
            for k in m.keys().filter(|k| k.starts_with("__")) {
                let idx = t.nid.strip_prefix('a').and_then(|s| s.parse::<usize>().ok());
                let allowed = idx.map(|i| r.private_holders.iter().any(|(h, hk)| *h == i && hk == k)).unwrap_or(false);
                if !allowed {
                    push("private-key-left-its-task".into(), format!("task {} ({}) of {pid} holds the private key {k} that it did not write", t.tid, t.nid));
                }
            }
            let _ = n_acts;
        }
    }
    // private keys never show in a message; values of another process never show
    for t in trace {
        if let Tr::Emit { msg, .. } = t {
            if msg.pid != pid {
                continue;
            }
            let i: Value = msg.inputs.clone().into();
            let o: Value = msg.outputs.clone().into();
            // the params of the act's own definition are its own data
            let mut i2 = i.clone();
            if let Some(m) = i2.as_object_mut() {
                m.remove("params");
            }
            if let Some(k) = has_private_key(&i2).or_else(|| has_private_key(&o)) {
                push("private-key-in-message".into(), format!("message of task {} ({}) of {pid} carries the private key {k}", msg.tid, msg.key));
            }
        }
    }
}

fn foreign_values(trace: &[Tr], pid: &str, lo: i64, hi: i64, push: &mut dyn FnMut(String, String)) {
    fn scan(v: &Value, lo: i64, hi: i64) -> Option<i64> {
        match v {
            Value::Number(n) => n.as_i64().filter(|x| *x >= lo && *x < hi),
            Value::Object(m) => m.values().find_map(|x| scan(x, lo, hi)),
            Value::Array(a) => a.iter().find_map(|x| scan(x, lo, hi)),
            _ => None,
        }
    }
    for t in trace {
        if let Tr::Emit { msg, .. } = t {
            if msg.pid == pid {
                let i: Value = msg.inputs.clone().into();
                let o: Value = msg.outputs.clone().into();
                if let Some(x) = scan(&i, lo, hi).or_else(|| scan(&o, lo, hi)) {
                    push("cross-process-value".into(), format!("a message of {pid} ({} {}) carries the value {x} that only the other process uses", msg.tid, msg.key));
                }
            }
        }
    }
}

/// run the processes of `progs` (pid p1, p2, ...) in one engine
pub fn run_progs(ch: &mut Chooser, progs: &[Prog], want_log: bool) -> RunObs {
    let mut sess = Session::new(&Cfg::keep());
    for (i, p) in progs.iter().enumerate() {
        sess.deploy(&p.yml(&format!("d{}", i + 1)));
    }
    for (i, p) in progs.iter().enumerate() {
        let mut v = json!({"pid": format!("p{}", i + 1)});
        if let Some(x) = p.start_x {
            v["x"] = json!(x + p.offset);
        }
        let _ = sess.start(&format!("d{}", i + 1), &vars_of(&v));
    }
    let mut states = vec![];
    let mut steps = 0;
    // (pid, interrupt idx) -> next option map to try
    let mut tried: BTreeMap<(String, usize), usize> = BTreeMap::new();
    let mut answers: BTreeMap<String, Vec<(usize, usize, bool)>> = BTreeMap::new();
    loop {
        let acts = sess.enabled();
        let open: Vec<acts::Message> = sess
            .open_irqs(None)
            .into_iter()
            .filter(|m| {
                let idx: usize = m.key[1..].parse().unwrap_or(999);
                let pi: usize = m.pid[1..].parse::<usize>().unwrap_or(1) - 1;
                let all = progs[pi].s1.iter().chain(progs[pi].s2.iter()).collect::<Vec<_>>();
                match all.get(idx) {
                    Some(ActD::Irq { tries, .. }) => *tried.get(&(m.pid.clone(), idx)).unwrap_or(&0) < tries.len(),
                    _ => false,
                }
            })
            .collect();
        let n = acts.len() + open.len();
        if n == 0 {
            break;
        }
        steps += 1;
        if steps > 400 {
            ch.horizon_hit = true;
            break;
        }
        states.push(crate::amode::fingerprint(&sess, &acts));
        let c = ch.choose(n);
        if c < acts.len() {
            ch.label(|| acts[c].label());
            sess.run(acts[c].seq);
        } else {
            let m = &open[c - acts.len()];
            let idx: usize = m.key[1..].parse().unwrap();
            let pi: usize = m.pid[1..].parse::<usize>().unwrap() - 1;
            let all = progs[pi].s1.iter().chain(progs[pi].s2.iter()).collect::<Vec<_>>();
            let ActD::Irq { tries, .. } = all[idx] else { unreachable!() };
            let nth = *tried.get(&(m.pid.clone(), idx)).unwrap_or(&0);
            let mut opts = json!({});
            let mut kind = "complete";
            for (k, v) in &tries[nth] {
                if *k == "@submit" {
                    kind = "submit";
                } else {
                    opts[*k] = json!(v + progs[pi].offset);
                }
            }
            ch.label(|| format!("client {kind} {}:{}({}) {opts}", m.pid, m.tid, m.key));
            let r = sess.act(kind, &m.pid, &m.tid, &vars_of(&opts));
            answers.entry(m.pid.clone()).or_default().push((idx, nth, r.is_ok()));
            tried.insert((m.pid.clone(), idx), if r.is_ok() { usize::MAX / 2 } else { nth + 1 });
        }
    }
    let trace = sess.w.trace_snapshot();
    let mut viols: Vec<(String, String)> = vec![];
    let mut push = |sig: String, what: String| {
        if !viols.iter().any(|(s, _)| *s == sig) {
            viols.push((sig, what));
        }
    };
    if !ch.horizon_hit {
        for (i, p) in progs.iter().enumerate() {
            let pid = format!("p{}", i + 1);
            let a = answers.get(&pid).cloned().unwrap_or_default();
            judge(&sess, &trace, &pid, p, &a, &mut push);
            if progs.len() > 1 {
                // the constants of the processes of a pair lie in [100, 200) and [200, 300)
                for (j, q) in progs.iter().enumerate() {
                    if j != i {
                        foreign_values(&trace, &pid, q.offset, q.offset + 100, &mut push);
                    }
                }
            }
        }
    }
    if sess.scheduler_dead || !sess.panics.is_empty() {
        push("panic".into(), format!("panics: {:?}", sess.panics));
    }
    let log = trace_log(&trace);
    let outcome = format!("{:?}", answers);
    RunObs {
        digest: digest(&log, &format!("{:?}", sess.results)),
        states,
        outcome,
        viols,
        detail: String::new(),
        log: if want_log { log } else { vec![] },
        machinery: sess.machinery_errors(),
    }
}

// ---- the program family ---------------------------------------------------------------------------

pub fn alphabet(in_s1: bool) -> Vec<ActD> {
    let mut v = vec![
        ActD::Msg,
        ActD::Set(vec![(K::X, 1)]),
        ActD::Set(vec![(K::Z, 2)]),
        ActD::Set(vec![(K::X, 1), (K::Z, 2), (K::P, 3)]),
        ActD::CodeRet(K::X, E::Const(2)),
        ActD::CodeRet(K::Y, E::Plus(K::X, 10)),
        ActD::CodeRet(K::Z, E::Const(3)),
        ActD::CodeSet(K::X, 3),
        ActD::CodeSet(K::Z, 4),
        ActD::CodeSet(K::P, 9),
        ActD::CodeCopy(K::Y, K::X),
        ActD::Irq { declared: true, tries: vec![vec![("x", 5)]] },
        ActD::Irq { declared: true, tries: vec![vec![("x", 5), ("y", 6), ("__q", 7)]] },
        ActD::Irq { declared: true, tries: vec![vec![("y", 6)], vec![("x", 5)]] },
        ActD::Irq { declared: false, tries: vec![vec![]] },
        ActD::Irq { declared: false, tries: vec![vec![("x", 5)]] },
        ActD::Irq { declared: false, tries: vec![vec![("y", 6), ("__q", 7)]] },
        ActD::Irq { declared: false, tries: vec![vec![("z", 8)]] },
        // surplus options named like the parameters some actions use for themselves
        ActD::Irq { declared: true, tries: vec![vec![("x", 5), ("message", 9), ("ecode", 9), ("to", 9)]] },
        ActD::Irq { declared: false, tries: vec![vec![("message", 9)]] },
        // answered with submit instead of complete
        ActD::Irq { declared: false, tries: vec![vec![("@submit", 0), ("x", 5)]] },
        ActD::Irq { declared: true, tries: vec![vec![("@submit", 0), ("x", 5), ("y", 6)]] },
        ActD::MsgIf(K::X, 1),
    ];
    if in_s1 {
        v.push(ActD::MsgIf(K::Z, 2));
        v.push(ActD::CodeRet(K::Y, E::Plus(K::Z, 10)));
    }
    v
}

fn seqs(alpha: &[ActD], len: usize) -> Vec<Vec<ActD>> {
    let mut v: Vec<Vec<ActD>> = vec![vec![]];
    for _ in 0..len {
        let mut n = vec![];
        for s in &v {
            for a in alpha {
                let mut t = s.clone();
                t.push(a.clone());
                n.push(t);
            }
        }
        v = n;
    }
    v
}

/// the acts that between them use every mechanism once
pub fn core_alphabet(in_s1: bool) -> Vec<ActD> {
    let mut v = vec![
        ActD::Msg,
        ActD::Set(vec![(K::X, 1)]),
        ActD::Set(vec![(K::X, 1), (K::Z, 2), (K::P, 3)]),
        ActD::CodeRet(K::Y, E::Plus(K::X, 10)),
        ActD::CodeSet(K::Z, 4),
        ActD::CodeCopy(K::Y, K::X),
        ActD::Irq { declared: true, tries: vec![vec![("x", 5), ("y", 6), ("__q", 7)]] },
        ActD::Irq { declared: true, tries: vec![vec![("y", 6)], vec![("x", 5)]] },
        ActD::Irq { declared: false, tries: vec![vec![("y", 6), ("__q", 7)]] },
        ActD::Irq { declared: true, tries: vec![vec![("x", 5), ("message", 9), ("ecode", 9), ("to", 9)]] },
        ActD::Irq { declared: false, tries: vec![vec![("@submit", 0), ("x", 5)]] },
        ActD::MsgIf(K::X, 1),
    ];
    if in_s1 {
        v.push(ActD::CodeRet(K::Y, E::Plus(K::Z, 10)));
    }
    v
}

/// all sequential programs with `total` acts (besides the final reader)
pub fn programs(total: usize, core: bool) -> Vec<Prog> {
    let mut v = vec![];
    let alpha = |s1: bool| if core { core_alphabet(s1) } else { alphabet(s1) };
    for a in 0..=total {
        let b = total - a;
        if a > 3 || b > 3 {
            continue;
        }
        for s1 in seqs(&alpha(true), a) {
            for s2 in seqs(&alpha(false), b) {
                v.push(Prog {
                    s1: s1.clone(),
                    s2,
                    start_x: None,
                    offset: 0,
                    branches: false,
                });
            }
        }
    }
    v
}

fn is_submit(a: &ActD) -> bool {
    matches!(a, ActD::Irq { tries, .. } if tries.iter().any(|t| t.iter().any(|(k, _)| *k == "@submit")))
}

/// A submitted act ends its step at once (the acts after it in the same step never run; whether
/// that is intended is not the subject of this property), so an interrupt answered with submit is
/// only placed last in the first act list.
fn well_placed(p: &Prog) -> bool {
    !p.s2.iter().any(is_submit) && !p.s1.iter().rev().skip(1).any(is_submit)
}

fn selected(tier: Tier) -> Vec<Prog> {
    let mut v = selected_all(tier);
    v.retain(well_placed);
    v
}

fn selected_all(tier: Tier) -> Vec<Prog> {
    let mut v = vec![];
    // full alphabet up to 2 / 3 acts, the core alphabet one act longer
    let max = tier.pick(3, 4);
    for t in 0..=max {
        for p in programs(t, t == max) {
            if t <= 2 {
                let mut q = p.clone();
                q.start_x = Some(4);
                v.push(q);
            }
            v.push(p);
        }
    }
    // writers in one branch, readers in the sibling that needs it
    for a in 1..=2usize {
        for b in 0..=tier.pick(1usize, 2) {
            if a + b > tier.pick(2, 3) {
                continue;
            }
            for s1 in seqs(&alphabet(true), a) {
                for s2 in seqs(&alphabet(true), b) {
                    v.push(Prog {
                        s1: s1.clone(),
                        s2,
                        start_x: None,
                        offset: 0,
                        branches: true,
                    });
                }
            }
        }
    }
    v
}

/// pairs of processes in one engine: the constants of the first lie in [100, 200), of the second in [200, 300)
fn pairs(tier: Tier) -> Vec<(Prog, Prog)> {
    let mut v = vec![];
    let n = tier.pick(1, 2);
    for t in 1..=n {
        for p in programs(t, false) {
            if p.s1.len() > 1 || p.s2.len() > 1 || !well_placed(&p) {
                continue;
            }
            let mut p = p;
            p.offset = 100;
            let mut q = p.clone();
            q.offset = 200;
            v.push((p, q));
        }
    }
    v
}

pub struct C07;

impl Check for C07 {
    fn info(&self, tier: Tier) -> CheckInfo {
        CheckInfo {
            id: "C07",
            level: "model_checking",
            rule: "every program `step s1 (declares z): act{0..3}; step s2: act{0..3}; final reader` with acts from an alphabet of 19-21 writers and readers (set of one / several keys incl. a private one, code `return {k: e}` with constant and global-reading expressions, `$set`, `$set(y, $get(x)+20)`, interrupts with and without declared outputs answered with 7 option maps incl. surplus keys, private keys, a missing declared output followed by a valid retry, a message act whose params read every name as a global and through `$get`, conditional acts) up to the length bound, x and y declared by the workflow, z by step s1, with and without a start value; a branch variant (writers in one branch, readers in a sibling that needs it); pairs of processes with disjoint constants in one engine; every order of queued tasks and answers. Oracle: reference environment (write goes to the declaring scope if it encloses the writer, read returns the last write): every read, every condition, which answers are accepted, the terminal outputs (exact key set and values), final data of the root and of the declaring step, private keys only in the task that wrote them and in no message, no constant of the other process anywhere".into(),
            assumptions: vec![
                "each name is declared in one enclosing scope (the property's restriction); reads of z outside s1 and what is handed from a task to its immediate successor are not judged".into(),
                "sequential members have one schedule up to the order of message dispatch; the branch and pair variants are explored exhaustively / with the deviation bound".into(),
            ],
            budget_s: tier.pick(55, 1500),
            exhaustive_when_uncapped: true,
            bounds: json!({"acts_per_program": tier.pick(3, 4), "pair_deviation_bound": tier.pick(1, 2)}),
        }
    }
    fn items(&self, tier: Tier) -> Vec<Value> {
        let n = selected(tier).len();
        let chunk = tier.pick(100, 400);
        let mut v: Vec<Value> = (0..n).step_by(chunk).map(|s| json!({"id": format!("progs/{s}"), "scenario": format!("progs/{s}"), "from": s, "to": (s + chunk).min(n)})).collect();
        let m = pairs(tier).len();
        v.extend((0..m).step_by(10).map(|s| json!({"id": format!("pairs/{s}"), "scenario": format!("pairs/{s}"), "pairs_from": s, "to": (s + 10).min(m)})));
        v
    }
    fn run_item(&self, tier: Tier, item: &Value, out: &mut ItemOut) {
        let to = item["to"].as_u64().unwrap() as usize;
        if let Some(from) = item.get("pairs_from").and_then(|x| x.as_u64()) {
            let ps = pairs(tier);
            for (p, q) in &ps[from as usize..to] {
                let id = format!("pair/{} || {}", p.name(), q.name());
                let desc = json!({"models": [p.yml("d1"), q.yml("d2")]});
                let progs = vec![p.clone(), q.clone()];
                explore_scenario(out, "C07", &id, &desc, Some(tier.pick(1, 2)), 200_000, false, &|ch, log| run_progs(ch, &progs, log));
                out.count("pairs", 1);
            }
            return;
        }
        let from = item["from"].as_u64().unwrap() as usize;
        let progs = selected(tier);
        for (k, p) in progs[from..to].iter().enumerate() {
            let id = format!("F_data/{}", p.name());
            let desc = json!({"model": p.yml("d1"), "start_x": p.start_x});
            let one = vec![p.clone()];
            explore_scenario(out, "C07", &id, &desc, None, 50_000, from == 0 && k == 5, &|ch, log| run_progs(ch, &one, log));
            out.count(if p.branches { "branch_programs" } else { "sequential_programs" }, 1);
        }
    }
}
