pub mod c01;
pub mod c05race;
pub mod c04;
pub mod c06;
pub mod c07;
pub mod c09;
pub mod c10;
pub mod c12;
pub mod c13;
pub mod c14;
pub mod c15;
pub mod c16;
pub mod c17;
pub mod c18;
pub mod c19;
pub mod c20;
pub mod common;
pub mod hist;
pub mod histchecks;
pub mod monitors;

use crate::report::Check;

pub fn c12_erase(s: &str) -> String {
    c12::erase_ids(s)
}

pub fn by_id(id: &str) -> Option<Box<dyn Check>> {
    match id {
        "C01" => Some(Box::new(c01::C01)),
        "C02" => Some(Box::new(histchecks::HistCheck { prop: "C02" })),
        "C03" => Some(Box::new(histchecks::HistCheck { prop: "C03" })),
        "C05" => Some(Box::new(histchecks::C05)),
        "C09" => Some(Box::new(c09::C09)),
        "C19" => Some(Box::new(c19::C19)),
        "C18" => Some(Box::new(c18::C18)),
        "C17" => Some(Box::new(c17::C17)),
        "C12" => Some(Box::new(c12::C12)),
        "C13" => Some(Box::new(c13::C13)),
        "C14" => Some(Box::new(c14::C14)),
        "C20" => Some(Box::new(c20::C20)),
        "C15" => Some(Box::new(c15::C15)),
        "C16" => Some(Box::new(c16::C16)),
        "C04" => Some(Box::new(c04::C04)),
        "C06" => Some(Box::new(c06::C06)),
        "C07" => Some(Box::new(c07::C07)),
        "C10" => Some(Box::new(c10::C10)),
        "C11" => Some(Box::new(histchecks::HistCheck { prop: "C11" })),
        "C08" => Some(Box::new(histchecks::HistCheck { prop: "C08" })),
        _ => None,
    }
}

/// Re-execute a replay file without the explorer: the recorded work item is run with the search
/// restricted to the recorded scenario and the one recorded schedule. Prints the decisions, the
/// observation log and whether the violation shows again. Exit 1 = reproduced, 0 = not reproduced,
/// 2 = the file cannot be re-executed (reference-state and differential checks store their own
/// path: their files are printed as recorded).
pub fn replay(path: &str) -> i32 {
    let text = match std::fs::read_to_string(path) {
        Ok(t) => t,
        Err(e) => {
            eprintln!("cannot read {path}: {e}");
            return 2;
        }
    };
    let v: serde_json::Value = serde_json::from_str(&text).expect("replay json");
    println!("property {} signature {}", v["property"], v["signature"]);
    println!("scenario {}", v["scenario"]);
    println!("what: {}", v["what"]);
    let item = v.get("item").cloned().unwrap_or(serde_json::Value::Null);
    let check = v["property"].as_str().and_then(by_id);
    let schedule: Option<Vec<u32>> = v.get("schedule").and_then(|s| s.as_array()).map(|a| a.iter().map(|x| x.as_u64().unwrap_or(0) as u32).collect());
    if let (Some(check), Some(schedule), true) = (check, schedule, item.is_object()) {
        crate::world::install_panic_hook_quiet();
        let tier = crate::report::Tier::parse(v["tier"].as_str().unwrap_or("quick"));
        let scn = v["scenario"].as_str().unwrap_or("").to_string();
        crate::report::REPLAY_FILTER.with(|f| *f.borrow_mut() = Some((scn, schedule)));
        crate::report::CURRENT_ITEM.with(|c| *c.borrow_mut() = (tier.name().to_string(), item.clone()));
        let mut out = crate::report::ItemOut::default();
        check.run_item(tier, &item, &mut out);
        println!("re-executed on the current tree: {} execution(s)", out.executions);
        let want = v["signature"].as_str().unwrap_or("");
        let mut hit = false;
        for x in &out.violations {
            println!("  shows: {} :: {}", x.sig, x.what);
            if x.sig == want {
                hit = true;
                println!("decisions:");
                for d in x.replay["decisions"].as_array().cloned().unwrap_or_default() {
                    println!("  {}", d.as_str().unwrap_or(""));
                }
                println!("log:");
                for d in x.replay["log"].as_array().cloned().unwrap_or_default() {
                    println!("  {}", d.as_str().unwrap_or(""));
                }
            }
        }
        for m in &out.machinery {
            println!("MACHINERY: {m}");
        }
        if hit {
            println!("REPRODUCED: {want}");
            return 1;
        }
        println!("NOT REPRODUCED: this schedule of this scenario no longer shows {want}");
        return 0;
    }
    println!("(recorded observation; this kind of file carries its own operation path and is not re-executed)");
    println!("decisions:");
    for d in v["decisions"].as_array().cloned().unwrap_or_default() {
        println!("  {}", d.as_str().unwrap_or(""));
    }
    println!("log:");
    for d in v["log"].as_array().cloned().unwrap_or_default() {
        println!("  {}", d.as_str().unwrap_or(""));
    }
    2
}
