//! C14 — Script boundary and templates: bounded-exhaustive input enumeration.
use super::common::vars_of;
use crate::report::*;
use crate::world::{Cfg, Session, Tr};
use serde_json::{Value, json};
use std::collections::BTreeMap;

fn atoms() -> Vec<Value> {
    vec![
        json!(null),
        json!(true),
        json!(false),
        json!(""),
        json!("a"),
        json!("é✓"),
        json!(0),
        json!(-1),
        json!(2147483647i64),
        json!(2147483648i64),
        json!(-2147483649i64),
        json!(3000000000i64),
        json!(9007199254740992i64),
        json!(-9007199254740992i64),
        json!(0.5),
        json!(-0.001),
        json!(1e300),
        // a string that is, as a whole, template syntax
        json!("{{ a }}"),
    ]
}

/// the value holds a string that is exactly one template
fn template_like(v: &Value) -> bool {
    match v {
        Value::String(s) => s.starts_with("{{") && s.ends_with("}}"),
        Value::Array(a) => a.iter().any(template_like),
        Value::Object(o) => o.values().any(template_like),
        _ => false,
    }
}

/// further boundary atoms of the thorough tier
fn more_atoms() -> Vec<Value> {
    vec![
        json!(i64::MAX),
        json!(i64::MIN),
        json!(u64::MAX),
        json!(123456789012345678i64),
        json!(1e19),
        json!(1e21),
        json!(-1e-7),
        json!(" "),
        json!("0"),
        json!("true"),
        json!("null"),
        json!("with \"quotes\" and \\ backslash"),
        json!("line\nbreak\ttab"),
        json!("'single'"),
        json!("${x} `tick`"),
        json!("日本語の長い文字列 🙂"),
    ]
}

/// all values: atoms, containers of width <= 2 over atoms, width-1 containers of those
/// (thorough: more atoms, and arrays / objects of width 3 over the first atoms)
pub fn values(tier: Tier) -> Vec<Value> {
    let mut a = atoms();
    if tier == Tier::Thorough {
        a.extend(more_atoms());
    }
    let mut v: Vec<Value> = a.clone();
    let mut level1: Vec<Value> = vec![json!([]), json!({})];
    for x in &a {
        level1.push(json!([x]));
        level1.push(json!({"k": x}));
    }
    for x in &a {
        for y in &a {
            level1.push(json!([x, y]));
            level1.push(json!({"k": x, "m": y}));
        }
    }
    if tier == Tier::Thorough {
        let b = atoms();
        for x in &b {
            for y in &b {
                for z in &b {
                    level1.push(json!([x, y, z]));
                }
            }
        }
        for x in b.iter().step_by(2) {
            for y in b.iter().step_by(3) {
                for z in b.iter().step_by(2) {
                    level1.push(json!({"k": x, "m": y, "z": z}));
                }
            }
        }
    }
    v.extend(level1.iter().cloned());
    let step = 1;
    for x in level1.iter().step_by(step) {
        v.push(json!([x]));
        v.push(json!({"n": x}));
    }
    v
}

/// equality by value: numbers numerically, everything else structurally
fn same(a: &Value, b: &Value) -> bool {
    match (a, b) {
        (Value::Number(x), Value::Number(y)) => x.as_f64() == y.as_f64(),
        (Value::Array(x), Value::Array(y)) => x.len() == y.len() && x.iter().zip(y.iter()).all(|(p, q)| same(p, q)),
        (Value::Object(x), Value::Object(y)) => x.len() == y.len() && x.iter().all(|(k, p)| y.get(k).map(|q| same(p, q)).unwrap_or(false)),
        _ => a == b,
    }
}

fn class_of(v: &Value) -> String {
    // the most demanding leaf decides the class
    fn rank(v: &Value) -> usize {
        match v {
            Value::Null => 0,
            Value::Bool(_) => 1,
            Value::String(s) => if s.is_ascii() { 2 } else { 5 },
            Value::Number(n) => {
                if n.is_f64() {
                    4
                } else {
                    let i = n.as_i64().unwrap_or(0);
                    if i >= i32::MIN as i64 && i <= i32::MAX as i64 { 3 } else { 6 }
                }
            }
            Value::Array(a) => a.iter().map(rank).max().unwrap_or(0),
            Value::Object(o) => o.values().map(rank).max().unwrap_or(0),
        }
    }
    ["null", "bool", "string", "int32", "float", "unicode-string", "int-beyond-32-bits"][rank(v)].to_string()
}

const ROUTES: [&str; 6] = ["global", "get", "compare-in-script", "return", "set", "condition"];

pub fn run_value(v: &Value) -> BTreeMap<&'static str, Option<Value>> {
    let lit = serde_json::to_string(v).unwrap();
    // the literal inside a double-quoted YAML string
    let esc = lit.replace('\\', "\\\\").replace('"', "\\\"");
    let yml = format!(
        "id: m14\noutputs:\n  r_global:\n  r_get:\n  r_cmp:\n  r_ret:\n  r_set:\n  r_if:\nsteps:\n  - id: s1\n    acts:\n      - uses: acts.transform.code\n        params: \"return {{ r_global: v, r_get: $get('v'), r_cmp: (JSON.stringify(v) === JSON.stringify({esc})) }};\"\n      - uses: acts.transform.code\n        params: \"return {{ r_ret: {esc} }};\"\n      - uses: acts.transform.code\n        params: \"$set('r_set', {esc});\"\n  - id: s2\n    if: \"JSON.stringify(v) === JSON.stringify({esc})\"\n    acts:\n      - uses: acts.transform.set\n        params:\n          r_if: true\n"
    );
    let mut sess = Session::new(&Cfg::default());
    sess.deploy(&yml);
    let vars = json!({"pid": "p1", "v": v, "r_global": "unset", "r_get": "unset", "r_cmp": "unset", "r_ret": "unset", "r_set": "unset", "r_if": false});
    let _ = sess.start("m14", &vars_of(&vars));
    sess.drain();
    let mut out: BTreeMap<&'static str, Option<Value>> = BTreeMap::new();
    let trace = sess.w.trace_snapshot();
    let ev = trace.iter().find_map(|t| match t {
        Tr::Emit { channel: "complete", msg } => Some(serde_json::to_value(&msg.outputs).unwrap()),
        _ => None,
    });
    for (r, k) in ROUTES.iter().zip(["r_global", "r_get", "r_cmp", "r_ret", "r_set", "r_if"]) {
        out.insert(r, ev.as_ref().and_then(|e| e.get(k).cloned()));
    }
    out
}

// ---- templates ----------------------------------------------------------------------------------

/// literals (ASCII and not), templates over ASCII names, a template over a non-ASCII name and one
/// holding a non-ASCII string literal
const SEGS: [&str; 8] = ["x-", "{{a}}", "{{ b }}", "{{a+1}}", " y", "é✓-", "{{ ü }}", "{{ \"日本\" }}"];

fn render(val: &Value) -> String {
    match val {
        Value::String(s) => s.clone(),
        Value::Bool(b) => b.to_string(),
        Value::Number(n) => n.to_string(),
        v => v.to_string(),
    }
}

fn template_cases() -> Vec<Vec<usize>> {
    let mut v: Vec<Vec<usize>> = vec![];
    for a in 0..SEGS.len() {
        v.push(vec![a]);
        for b in 0..SEGS.len() {
            v.push(vec![a, b]);
            for c in 0..SEGS.len() {
                v.push(vec![a, b, c]);
            }
        }
    }
    v
}

fn expected_template(segs: &[usize], a: &Value, b: &Value) -> Value {
    let val = |i: usize| -> Option<Value> {
        match i {
            6 => Some(json!(7)),
            7 => Some(json!("日本")),
            1 => Some(a.clone()),
            2 => Some(b.clone()),
            3 => Some(match a {
                Value::Number(n) => json!(n.as_i64().unwrap() + 1),
                Value::Bool(x) => json!(*x as i64 + 1),
                _ => json!(null),
            }),
            _ => None,
        }
    };
    if segs.len() == 1 {
        if let Some(v) = val(segs[0]) {
            return v; // exactly one template: the typed value
        }
    }
    let mut s = String::new();
    for i in segs {
        match val(*i) {
            Some(v) => s.push_str(&render(&v)),
            None => s.push_str(SEGS[*i]),
        }
    }
    json!(s)
}

fn run_templates(a: &Value, b: &Value, out: &mut ItemOut, viols: &mut BTreeMap<String, String>) {
    let cases = template_cases();
    // all template strings in one message act (one parameter per string)
    let mut yml = String::from("id: m14t\nsteps:\n  - id: s1\n    acts:\n      - uses: acts.core.msg\n        key: m\n        params:\n");
    for (i, c) in cases.iter().enumerate() {
        let text: String = c.iter().map(|k| SEGS[*k]).collect();
        yml += &format!("          t{i}: \"{}\"\n", text.replace('"', "\\\""));
    }
    let mut sess = Session::new(&Cfg::default());
    sess.deploy(&yml);
    let _ = sess.start("m14t", &vars_of(&json!({"pid": "p1", "a": a, "b": b, "ü": 7})));
    sess.drain();
    let msg = sess.messages().into_iter().find(|m| m.key == "m");
    let params = msg.map(|m| serde_json::to_value(&m.inputs).unwrap()["params"].clone()).unwrap_or_default();
    for (i, c) in cases.iter().enumerate() {
        let text: String = c.iter().map(|k| SEGS[*k]).collect();
        let exp = expected_template(c, a, b);
        let got = params.get(format!("t{i}")).cloned().unwrap_or(Value::Null);
        out.count("evaluations", 1);
        out.count("template_strings", 1);
        let ntempl = c.iter().filter(|k| matches!(**k, 1 | 2 | 3 | 6 | 7)).count();
        if !same(&got, &exp) {
            let class = match ntempl {
                0 => "verbatim",
                1 if c.len() == 1 => "single-template-typed",
                1 => "one-template-in-text",
                _ => "several-templates",
            };
            viols.entry(format!("template/{class}")).or_insert(format!("the parameter \"{text}\" with a={a}, b={b} became {got}, expected {exp}"));
        }
    }
    out.executions += 1;
}

pub struct C14;

impl Check for C14 {
    fn info(&self, tier: Tier) -> CheckInfo {
        CheckInfo {
            id: "C14",
            level: "exploration",
            rule: "values: 17 boundary atoms (null, booleans, ASCII / unicode / empty strings, 0, -1, 2^31-1, 2^31, -2^31-1, 3*10^9, +-2^53, 0.5, -0.001, 1e300), every array and object of width <= 2 over them and width-1 containers of those, each sent through six routes of a real process (script global, $get, comparison inside a script, return from a code act, $set, step condition) and read back from the terminal event; templates: every string of <= 3 segments over {literal, {{a}}, {{ b }}, {{a+1}}, literal} for two typings of a and b, substituted by the engine into message parameters and compared with a reference substitution. A value is non-trivial when it is not null/false/empty".into(),
            assumptions: vec!["numbers are compared by value (an integer that comes back as a whole-valued double is the same value)".into()],
            budget_s: tier.pick(50, 300),
            exhaustive_when_uncapped: true,
            bounds: json!({"container_width": 2, "container_depth": 2, "template_segments": 3}),
        }
    }
    fn items(&self, tier: Tier) -> Vec<Value> {
        let n = values(tier).len();
        let chunk = 25;
        let mut v: Vec<Value> = (0..n).step_by(chunk).map(|s| json!({"id": format!("values/{s}"), "scenario": "values", "from": s, "to": (s + chunk).min(n)})).collect();
        v.push(json!({"id": "templates/int+string", "scenario": "templates", "a": 1, "b": "s"}));
        v.push(json!({"id": "templates/bool+float", "scenario": "templates", "a": true, "b": 2.5}));
        v
    }
    fn run_item(&self, tier: Tier, item: &Value, out: &mut ItemOut) {
        let mut viols: BTreeMap<(String, String), String> = BTreeMap::new();
        if item["scenario"] == "templates" {
            let mut tv: BTreeMap<String, String> = BTreeMap::new();
            run_templates(&item["a"], &item["b"], out, &mut tv);
            for (k, w) in tv {
                viols.insert((k, String::new()), w);
            }
            if item["a"] == 1 {
                out.samples.push(json!({"template": "x-{{a}}{{ b }}", "a": 1, "b": "s", "expected": "x-1s"}));
            }
        } else {
            let vals = values(tier);
            let (from, to) = (item["from"].as_u64().unwrap() as usize, item["to"].as_u64().unwrap() as usize);
            for v in &vals[from..to] {
                let got = run_value(v);
                out.executions += 1;
                out.count("evaluations", ROUTES.len() as i64);
                out.count("values", 1);
                if !matches!(v, Value::Null | Value::Bool(false)) && v != &json!("") && v != &json!([]) && v != &json!({}) {
                    out.count("distinct_nontrivial", 1);
                }
                let tl = template_like(v);
                for r in ROUTES {
                    // four routes write the literal into the text of the model, where template syntax
                    // is substituted by design; such a value is judged as a start variable only
                    if tl && !matches!(r, "global" | "get") {
                        continue;
                    }
                    let g = got.get(r).cloned().flatten();
                    let exp = if r == "compare-in-script" || r == "condition" { json!(true) } else { v.clone() };
                    let ok = g.as_ref().map(|g| same(g, &exp)).unwrap_or(false);
                    if !ok {
                        viols.entry((format!("value/{r}/{}", class_of(v)), if tl { "template-like-string".to_string() } else { String::new() })).or_insert(format!(
                            "the variable value {v} through route '{r}' came back as {}",
                            g.map(|x| x.to_string()).unwrap_or("nothing (no terminal event or key missing)".into())
                        ));
                    }
                }
            }
            if from == 0 {
                out.samples.push(json!({"value": vals[11], "routes": ROUTES, "read_back_from": "outputs of the complete event"}));
            }
        }
        let scen = item["scenario"].as_str().unwrap_or("").to_string();
        for ((sig, detail), what) in viols {
            out.violations.push(Violation {
                property: "C14".into(),
                sig: sig.clone(),
                scenario: scen.clone(),
                detail,
                what: what.clone(),
                replay: json!({"property": "C14", "signature": sig, "what": what}),
            });
        }
    }
}
