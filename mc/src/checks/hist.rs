//! History exploration: the explorer chooses *which* client actions are issued (any action kind
//! against any task that exists at that moment, open or terminal) and *when* (at a quiescent
//! point for free, or racing in-flight engine work as a deviation), up to a history length.
use super::common::*;
use crate::amode::{ARun, fingerprint};
use crate::explore::Chooser;
use crate::world::{Session, Tr};
use acts::verif::ProcDump;
use serde_json::{Value, json};
use std::collections::BTreeMap;

#[derive(Clone, Debug)]
pub struct OpSpec {
    pub kind: String,
    pub pid: String,
    pub tid: String,
    pub opts: Value,
    /// what the target is, for signatures: e.g. "act:interrupted", "act:completed", "step", "unknown-tid"
    pub target_class: String,
    pub nid: String,
}

impl OpSpec {
    pub fn label(&self) -> String {
        format!("{} {}:{}({}) {}", self.kind, self.pid, self.tid, self.nid, self.opts)
    }
}

#[derive(Clone, Debug)]
pub struct OpRec {
    pub spec: OpSpec,
    pub pre: Option<ProcDump>,
    pub post: Option<ProcDump>,
    pub trace_from: usize,
    pub trace_to: usize,
    pub result: Result<(), String>,
    pub quiescent: bool,
}

#[derive(Clone)]
pub struct HistCfg {
    pub max_ops: usize,
    /// (action kind, option maps) offered against act tasks
    pub actions: Vec<(&'static str, Vec<Value>)>,
    /// also aim at steps, branches, the root, an unknown tid, an unknown pid
    pub odd_targets: bool,
    /// also aim at acts that are already terminal
    pub terminal_targets: bool,
    /// `back` is offered with `to` = every step node that has a task
    pub back: bool,
    pub push: bool,
}

pub fn default_actions() -> Vec<(&'static str, Vec<Value>)> {
    vec![
        ("complete", vec![json!({})]),
        ("submit", vec![json!({})]),
        ("skip", vec![json!({})]),
        ("remove", vec![json!({})]),
        ("abort", vec![json!({})]),
        ("error", vec![json!({"ecode": "e1"}), json!({"ecode": "e2", "message": "boom"})]),
        ("cancel", vec![json!({})]),
    ]
}

pub fn enumerate_ops(pids: &[String], views: &BTreeMap<String, Option<ProcDump>>, cfg: &HistCfg) -> Vec<OpSpec> {
    let mut v = vec![];
    for pid in pids {
        let d = match views.get(pid).and_then(|x| x.as_ref()) {
            Some(d) => d,
            None => continue,
        };
        let mut tasks: Vec<_> = d.tasks.iter().collect();
        tasks.sort_by_key(|t| t.timestamp);
        let steps: Vec<String> = {
            let mut s: Vec<String> = tasks.iter().filter(|t| t.kind == "step").map(|t| t.nid.clone()).collect();
            s.dedup();
            s
        };
        for t in tasks.iter() {
            let is_act = t.kind == "act";
            let terminal = crate::amode::is_terminal_state(&t.state);
            if is_act {
                // hook acts and generated block acts are engine-internal; a client acts on irq acts
                if t.uses != "acts.core.irq" {
                    continue;
                }
                if terminal && !cfg.terminal_targets {
                    continue;
                }
            } else if !cfg.odd_targets {
                continue;
            }
            let class = if is_act { format!("act:{}", t.state) } else { t.kind.clone() };
            for (kind, optss) in &cfg.actions {
                for o in optss {
                    v.push(OpSpec {
                        kind: kind.to_string(),
                        pid: pid.clone(),
                        tid: t.tid.clone(),
                        opts: o.clone(),
                        target_class: class.clone(),
                        nid: t.nid.clone(),
                    });
                }
            }
            if cfg.back && is_act {
                for s in &steps {
                    v.push(OpSpec {
                        kind: "back".into(),
                        pid: pid.clone(),
                        tid: t.tid.clone(),
                        opts: json!({"to": s}),
                        target_class: class.clone(),
                        nid: t.nid.clone(),
                    });
                }
            }
            if cfg.push && (t.kind == "step" || cfg.odd_targets) && !(is_act && !cfg.odd_targets) {
                v.push(OpSpec {
                    kind: "push".into(),
                    pid: pid.clone(),
                    tid: t.tid.clone(),
                    opts: json!({"uses": "acts.core.irq", "key": "pushed"}),
                    target_class: class.clone(),
                    nid: t.nid.clone(),
                });
            }
        }
        if cfg.odd_targets {
            for (kind, optss) in &cfg.actions {
                v.push(OpSpec {
                    kind: kind.to_string(),
                    pid: pid.clone(),
                    tid: "nope".into(),
                    opts: optss[0].clone(),
                    target_class: "unknown-tid".into(),
                    nid: "".into(),
                });
                v.push(OpSpec {
                    kind: kind.to_string(),
                    pid: "nobody".into(),
                    tid: "$".into(),
                    opts: optss[0].clone(),
                    target_class: "unknown-pid".into(),
                    nid: "".into(),
                });
            }
        }
    }
    v
}

pub struct HExec {
    pub e: Exec,
    pub ops: Vec<OpRec>,
}

/// One execution: deploy + start, then the loop described in the module comment.
pub fn run_history(ch: &mut Chooser, scn: &Scn, cfg: &HistCfg) -> HExec {
    run_history_with(ch, scn, cfg, &mut |_| {})
}

pub fn run_history_with(ch: &mut Chooser, scn: &Scn, cfg: &HistCfg, setup: &mut dyn FnMut(&mut Session)) -> HExec {
    let mut sess = Session::new(&scn.cfg);
    sess.w.want_dumps.store(scn.want_dumps, std::sync::atomic::Ordering::Relaxed);
    for m in &scn.models {
        sess.deploy(m);
    }
    setup(&mut sess);
    for (mid, vars) in &scn.starts {
        let _ = sess.start(mid, &vars_of(vars));
    }
    for (what, arg) in &scn.prelude {
        sess.drain();
        match what.as_str() {
            "complete" => {
                if let Some(m) = sess.open_irqs(None).into_iter().find(|m| m.key == *arg) {
                    let _ = sess.act("complete", &m.pid, &m.tid, &acts::Vars::new());
                }
            }
            "tick" => {
                sess.w.advance_ms(arg.parse().unwrap_or(0));
                sess.tick();
            }
            _ => {}
        }
        sess.drain();
    }
    let pids = scn.pids();
    let mut points: Vec<QPoint> = vec![];
    let mut ops_done: Vec<OpRec> = vec![];
    let mut r = ARun {
        steps: 0,
        horizon_hit: false,
        states: vec![],
        max_enabled: 0,
    };
    loop {
        let acts = sess.enabled();
        let quiescent = acts.is_empty();
        r.states.push(fingerprint(&sess, &acts));
        let mut views = BTreeMap::new();
        for p in &pids {
            views.insert(p.clone(), if scn.full_views { sess.dump(p) } else { sess.dump_light(p) });
        }
        // a snapshot at every activity boundary (structural unless the scenario asks for full views)
        let stored = if scn.capture_store && quiescent {
            Some(pids.iter().map(|p| (p.clone(), stored_rows(&sess, p))).collect())
        } else {
            None
        };
        points.push(QPoint {
            at: sess.w.trace_len(),
            views: views.clone(),
            quiescent,
            stored,
        });
        let ops = if ops_done.len() < cfg.max_ops {
            enumerate_ops(&pids, &views, cfg)
        } else {
            vec![]
        };
        r.max_enabled = r.max_enabled.max(acts.len() + ops.len());
        if r.steps >= scn.horizon {
            r.horizon_hit = true;
            ch.horizon_hit = true;
            break;
        }
        let op: Option<OpSpec>;
        if !quiescent {
            let who = if ops.is_empty() { 0 } else { ch.choose_cost(2, 1) };
            if who == 0 {
                if ops.is_empty() {
                    // keep decision sequences aligned: no decision was made
                } else {
                    ch.label(|| "engine".into());
                }
                let c = ch.choose(acts.len());
                ch.label(|| acts[c].label());
                sess.run(acts[c].seq);
                r.steps += 1;
                continue;
            }
            ch.label(|| "client (racing in-flight work)".into());
            let c = ch.choose_free(ops.len());
            op = Some(ops[c].clone());
        } else {
            if ops.is_empty() {
                break;
            }
            let c = ch.choose_free(ops.len() + 1);
            if c == 0 {
                ch.label(|| "stop".into());
                break;
            }
            op = Some(ops[c - 1].clone());
        }
        let op = op.unwrap();
        ch.label(|| format!("client {}", op.label()));
        let pre = if scn.full_views { sess.dump(&op.pid) } else { sess.dump_light(&op.pid) };
        let from = sess.w.trace_len();
        let result = sess.act(&op.kind, &op.pid, &op.tid, &vars_of(&op.opts));
        // the messages generated by the action belong to it
        sess.flush_dispatch();
        let to = sess.w.trace_len();
        let post = if scn.full_views { sess.dump(&op.pid) } else { sess.dump_light(&op.pid) };
        ops_done.push(OpRec {
            spec: op,
            pre,
            post,
            trace_from: from,
            trace_to: to,
            result,
            quiescent,
        });
        r.steps += 1;
    }
    // final snapshot
    let mut views = BTreeMap::new();
    for p in &pids {
        views.insert(p.clone(), if scn.full_views { sess.dump(p) } else { sess.dump_light(p) });
    }
    if points.last().map(|q| q.at != sess.w.trace_len()).unwrap_or(true) {
        let quiescent = sess.enabled().is_empty();
        let stored = if scn.capture_store && quiescent {
            Some(pids.iter().map(|p| (p.clone(), stored_rows(&sess, p))).collect())
        } else {
            None
        };
        points.push(QPoint {
            at: sess.w.trace_len(),
            views,
            quiescent,
            stored,
        });
    }
    let trace = sess.w.trace_snapshot();
    let delivered = sess.delivered.lock().unwrap().clone();
    HExec {
        e: Exec {
            trace,
            points,
            results: sess.results.clone(),
            panics: sess.panics.clone(),
            scheduler_dead: sess.scheduler_dead,
            arun: r,
            pids,
            machinery: sess.machinery_errors(),
            delivered,
        },
        ops: ops_done,
    }
}

/// the client operation (if any) during which trace index `i` was produced
pub fn op_at(ops: &[OpRec], i: usize) -> Option<&OpRec> {
    ops.iter().find(|o| o.trace_from <= i && i < o.trace_to)
}

pub fn history_name(ops: &[OpRec]) -> String {
    ops.iter()
        .map(|o| format!("{}@{}", o.spec.kind, o.spec.target_class))
        .collect::<Vec<_>>()
        .join(",")
}

#[allow(dead_code)]
pub fn trace_states(trace: &[Tr], pid: &str, tid: &str) -> Vec<String> {
    trace
        .iter()
        .filter_map(|t| match t {
            Tr::TaskEvent {
                pid: p, tid: t2, state, ..
            } if p == pid && t2 == tid => Some(state.clone()),
            _ => None,
        })
        .collect()
}
