//! C18 — Channel filters. (a) Matrix: every combination of seven glob patterns per field
//! (7^5 channels, all registered on one real engine) against the messages of real runs, judged by
//! a hand-written truth table per pattern (no glob engine in the oracle). (b) R-mode histories of
//! open / re-register / close / unsub / emit over two channels with all four handler kinds.
use crate::report::*;
use crate::world::{Cfg, Session};
use acts::{ChannelOptions, Message};
use serde_json::{Value, json};
use std::collections::{BTreeMap, BTreeSet, VecDeque};
use std::sync::{Arc, Mutex};

/// corpus workflow: tags on the model and on nodes, keys with one and two characters, msg and irq acts
const CORPUS_WF: &str = "id: mc\ntag: mt\nsteps:\n  - id: s1\n    tag: t1\n    acts:\n      - uses: acts.core.msg\n        key: k1\n        tag: t1\n      - uses: acts.core.irq\n        key: ab\n      - uses: acts.core.irq\n        key: k2\n        tag: bc\n  - id: s2\n    if: \"false\"\n";
const CORPUS_WF2: &str = "id: md\nsteps:\n  - id: x1\n    acts:\n      - uses: acts.transform.code\n        key: boom\n        params: \"throw new Error('boom')\"\n";

type Pred = fn(&str) -> bool;

/// seven patterns per field with their truth tables, written by hand against the glob syntax
fn patterns(field: &str) -> Vec<(&'static str, Pred)> {
    match field {
        "type" => vec![
            ("*", |_| true),
            ("step", |s| s == "step"),
            ("nope", |s| s == "nope"),
            ("s*", |s| s.starts_with('s')),
            ("?ct", |s| s.chars().count() == 3 && s.ends_with("ct")),
            ("{act,workflow}", |s| s == "act" || s == "workflow"),
            ("[as]tep", |s| s == "atep" || s == "step"),
        ],
        "state" => vec![
            ("*", |_| true),
            ("created", |s| s == "created"),
            ("nope", |s| s == "nope"),
            ("c*", |s| s.starts_with('c')),
            ("?rror", |s| s.chars().count() == 5 && s.ends_with("rror")),
            ("{completed,skipped}", |s| s == "completed" || s == "skipped"),
            ("[ce]rror", |s| s == "crror" || s == "error"),
        ],
        "key" => vec![
            ("*", |_| true),
            ("k1", |s| s == "k1"),
            ("nope", |s| s == "nope"),
            ("k*", |s| s.starts_with('k')),
            ("?b", |s| s.chars().count() == 2 && s.ends_with('b')),
            ("{k2,s1}", |s| s == "k2" || s == "s1"),
            ("[ak]1", |s| s == "a1" || s == "k1"),
        ],
        "uses" => vec![
            ("*", |_| true),
            ("acts.core.irq", |s| s == "acts.core.irq"),
            ("nope", |s| s == "nope"),
            ("acts.core.*", |s| s.starts_with("acts.core.")),
            ("acts.core.?sg", |s| s.starts_with("acts.core.") && s.chars().count() == 13 && s.ends_with("sg")),
            ("{acts.core.msg,acts.transform.code}", |s| s == "acts.core.msg" || s == "acts.transform.code"),
            ("acts.core.[im]rq", |s| s == "acts.core.irq" || s == "acts.core.mrq"),
        ],
        _ => vec![
            ("*", |_| true),
            ("t1", |s| s == "t1"),
            ("nope", |s| s == "nope"),
            ("m*", |s| s.starts_with('m')),
            ("?c", |s| s.chars().count() == 2 && s.ends_with('c')),
            ("{t1,bc}", |s| s == "t1" || s == "bc"),
            ("[bm]t", |s| s == "bt" || s == "mt"),
        ],
    }
}

fn state_str(m: &Message) -> String {
    format!("{:?}", m.state).to_lowercase()
}

fn expected(m: &Message, idx: [usize; 5]) -> bool {
    let (pt, ps, pg, pk, pu) = (patterns("type"), patterns("state"), patterns("tag"), patterns("key"), patterns("uses"));
    (pt[idx[0]].1)(&m.r#type)
        && (ps[idx[1]].1)(&state_str(m))
        && ((pg[idx[2]].1)(&m.tag) || (pg[idx[2]].1)(&m.model.tag))
        && (pk[idx[3]].1)(&m.key)
        && (pu[idx[4]].1)(&m.uses)
}

fn run_corpus(sess: &mut Session) {
    sess.deploy(CORPUS_WF);
    sess.deploy(CORPUS_WF2);
    let _ = sess.start("mc", &crate::checks::common::vars_of(&json!({"pid": "p1"})));
    sess.drain();
    for _ in 0..3 {
        let open = sess.open_irqs(Some("p1"));
        if let Some(m) = open.first() {
            let _ = sess.act("complete", "p1", &m.tid, &acts::Vars::new());
            sess.drain();
        }
    }
    let _ = sess.start("md", &crate::checks::common::vars_of(&json!({"pid": "p2"})));
    sess.drain();
}

/// part (a): one slice of the channel matrix (fixed type and state pattern)
fn matrix(slice: usize, out: &mut ItemOut) {
    let (i0, i1) = (slice / 7, slice % 7);
    let mut sess = Session::new(&Cfg::default());
    let log: Arc<Mutex<Vec<(usize, String)>>> = Arc::new(Mutex::new(vec![]));
    let (pt, ps, pg, pk, pu) = (patterns("type"), patterns("state"), patterns("tag"), patterns("key"), patterns("uses"));
    let mut chans: Vec<[usize; 5]> = vec![];
    for i2 in 0..7 {
        for i3 in 0..7 {
            for i4 in 0..7 {
                let idx = [i0, i1, i2, i3, i4];
                let n = chans.len();
                chans.push(idx);
                let ch = sess.engine.channel_with_options(&ChannelOptions {
                    id: format!("c{n}"),
                    ack: false,
                    r#type: pt[i0].0.into(),
                    state: ps[i1].0.into(),
                    tag: pg[i2].0.into(),
                    key: pk[i3].0.into(),
                    uses: pu[i4].0.into(),
                });
                let l = log.clone();
                ch.on_message(move |e| l.lock().unwrap().push((n, e.id.clone())));
            }
        }
    }
    run_corpus(&mut sess);
    // the unfiltered default channel saw every message
    let all: Vec<Message> = sess.delivered.lock().unwrap().iter().filter(|d| d.channel == "message").map(|d| d.msg.clone()).collect();
    let got: BTreeSet<(usize, String)> = log.lock().unwrap().iter().cloned().collect();
    let dup = log.lock().unwrap().len() != got.len();
    let mut viols: BTreeMap<String, String> = BTreeMap::new();
    if dup {
        viols.insert("matrix/duplicate-delivery".into(), "a channel received one message twice".into());
    }
    let mut distinct: BTreeSet<String> = BTreeSet::new();
    let mut hits = 0i64;
    for (n, idx) in chans.iter().enumerate() {
        for m in &all {
            distinct.insert(format!("{}|{}|{}|{}|{}|{}", m.r#type, state_str(m), m.key, m.uses, m.tag, m.model.tag));
            let exp = expected(m, *idx);
            let g = got.contains(&(n, m.id.clone()));
            if exp {
                hits += 1;
            }
            if exp != g {
                // which field is responsible: the first one whose single-field channel also disagrees
                let fields = ["type", "state", "tag", "key", "uses"];
                let mut culprit = "conjunction".to_string();
                for (f, name) in fields.iter().enumerate() {
                    let others_star = idx.iter().enumerate().all(|(j, v)| j == f || *v == 0);
                    if others_star {
                        culprit = format!("{name}:{}", patterns(name)[idx[f]].0);
                    }
                }
                viols.entry(format!("matrix/{}/{}", if g { "delivered-not-matching" } else { "missed" }, culprit)).or_insert(format!(
                    "channel type={} state={} tag={} key={} uses={} and message type={} state={} key={} uses={} tag='{}' model.tag='{}': delivered={g}, expected={exp}",
                    pt[idx[0]].0, ps[idx[1]].0, pg[idx[2]].0, pk[idx[3]].0, pu[idx[4]].0, m.r#type, state_str(m), m.key, m.uses, m.tag, m.model.tag
                ));
            }
        }
    }
    let evals = (chans.len() * all.len()) as i64;
    out.count("matrix_channels", chans.len() as i64);
    out.count("matrix_evaluations", evals);
    out.count("matrix_expected_deliveries", hits);
    out.count("evaluations", evals);
    if slice == 0 {
        out.count("corpus_messages_per_run", all.len() as i64);
        out.count("corpus_distinct_messages", distinct.len() as i64);
        out.count("distinct_nontrivial", distinct.len() as i64);
    }
    out.executions += 1;
    if slice == 0 {
        out.samples.push(json!({"part": "matrix", "channel": {"type": pt[1].0, "state": ps[3].0, "tag": pg[6].0, "key": pk[4].0, "uses": pu[3].0},
            "corpus": distinct.iter().cloned().collect::<Vec<_>>()}));
    }
    for (sig, what) in viols {
        out.violations.push(Violation {
            property: "C18".into(),
            sig: sig.clone(),
            scenario: format!("matrix/{}/{}", pt[i0].0, ps[i1].0),
            detail: String::new(),
            what: what.clone(),
            replay: json!({"property": "C18", "signature": sig, "what": what, "models": [CORPUS_WF, CORPUS_WF2]}),
        });
    }
}

// ---------------------------------------------------------------------------------------------

#[derive(Clone, Debug, PartialEq, Eq, PartialOrd, Ord, Hash)]
enum Op {
    /// (channel, pattern variant, handler kinds: 0 = all four, 1 = start/complete/error only, 2 = message only)
    Open(usize, usize, usize),
    Close(usize),
    Unsub(usize),
    EmitOk,
    EmitErr,
    /// a completing process runs but its messages are not dispatched yet; then the operation on a
    /// registered channel (close, unsub or re-register); then the held messages are dispatched
    HeldThen(Box<Op>),
}

/// pattern variants of part (b): (type, state)
const VARIANTS: [(&str, &str); 2] = [("*", "*"), ("{workflow,act}", "{completed,error}")];

fn variant_match(v: usize, m: &Message) -> bool {
    match v {
        0 => true,
        _ => (m.r#type == "workflow" || m.r#type == "act") && (state_str(m) == "completed" || state_str(m) == "error"),
    }
}

type Reg = [Option<usize>; 2];

fn histories(depth: usize, first: usize, out: &mut ItemOut) {
    let mut seen: BTreeSet<Reg> = BTreeSet::new();
    let mut viols: BTreeMap<String, (String, Vec<Op>)> = BTreeMap::new();
    let mut edges = 0i64;
    // every operation sequence up to the depth (the registration state alone does not carry the
    // hidden state of the emitter, so sequences are enumerated, not only reference states)
    let mut queue: VecDeque<Vec<Op>> = VecDeque::new();
    let alphabet = |reg: &Reg| {
        let mut v = vec![Op::EmitOk, Op::EmitErr];
        for c in 0..2 {
            // channel 0 registers every subset shape of handler kinds, channel 1 all four
            for kinds in 0..(if c == 0 { 3 } else { 1 }) {
                v.push(Op::Open(c, 0, kinds));
                v.push(Op::Open(c, 1, kinds));
            }
            // close / unsub are also tried on a channel that is not registered (no effect expected)
            v.push(Op::Close(c));
            if reg[c].is_some() {
                v.push(Op::Unsub(c));
                v.push(Op::HeldThen(Box::new(Op::Close(c))));
                v.push(Op::HeldThen(Box::new(Op::Unsub(c))));
                v.push(Op::HeldThen(Box::new(Op::Open(c, 0, 0))));
            }
        }
        v
    };
    // this work item: the sequences that begin with the `first`-th operation of the initial alphabet
    match alphabet(&[None, None]).get(first) {
        Some(op) => queue.push_back(vec![op.clone()]),
        None => return,
    }
    while let Some(path) = queue.pop_front() {
        // run the path on a fresh engine
        let mut sess = Session::new(&Cfg::default());
        sess.deploy("id: ok\nsteps:\n  - id: s1\n    acts:\n      - uses: acts.core.msg\n        key: k1\n");
        sess.deploy(CORPUS_WF2);
        // (channel, handler kind, message id, registration generation of the handler)
        let logs: Arc<Mutex<Vec<(usize, &'static str, String, usize)>>> = Arc::new(Mutex::new(vec![]));
        let mut generation = 0usize;
        // per channel: the generation registered before a held operation re-registered it
        let mut stale_gen: [Option<usize>; 2] = [None, None];
        let mut chans: Vec<Option<Arc<acts::Channel>>> = vec![None, None];
        let mut reg: Reg = [None, None];
        // channel -> handler kind -> pattern variant registered for it
        let mut per_kind: [BTreeMap<&'static str, usize>; 2] = [BTreeMap::new(), BTreeMap::new()];
        let mut n_proc = 0;
        for (k, op) in path.iter().enumerate() {
            let last = k + 1 == path.len();
            let before_log = logs.lock().unwrap().len();
            let before_all = sess.delivered.lock().unwrap().len();
            // a held operation: the process runs first, the inner operation follows, the dispatch comes last
            let (op, held) = match op {
                Op::HeldThen(inner) => {
                    n_proc += 1;
                    let _ = sess.start("ok", &crate::checks::common::vars_of(&json!({"pid": format!("p{n_proc}")})));
                    sess.drain_holding_dispatch();
                    if let Op::Open(c, _, _) = inner.as_ref() {
                        stale_gen[*c] = Some(generation);
                    }
                    (inner.as_ref(), true)
                }
                o => (o, false),
            };
            match op {
                Op::Open(c, v, kinds) => {
                    let ch = sess.engine.channel_with_options(&ChannelOptions {
                        id: format!("chan{c}"),
                        r#type: VARIANTS[*v].0.into(),
                        state: VARIANTS[*v].1.into(),
                        ..Default::default()
                    });
                    // registering again replaces the handlers of the kinds that are registered now;
                    // the reference keeps the pattern per handler kind
                    let which: &[&'static str] = match kinds {
                        0 => &["message", "start", "complete", "error"],
                        1 => &["start", "complete", "error"],
                        _ => &["message"],
                    };
                    generation += 1;
                    let g = generation;
                    for kind in which.iter().copied() {
                        let l = logs.clone();
                        let c2 = *c;
                        let f = move |e: &acts::Event<Message>| l.lock().unwrap().push((c2, kind, e.id.clone(), g));
                        match kind {
                            "message" => ch.on_message(f),
                            "start" => ch.on_start(f),
                            "complete" => ch.on_complete(f),
                            _ => ch.on_error(f),
                        }
                    }
                    chans[*c] = Some(ch);
                    reg[*c] = Some(*v);
                    for kind in which.iter().copied() {
                        per_kind[*c].insert(kind, *v);
                    }
                }
                Op::Close(c) => {
                    match &chans[*c] {
                        Some(ch) => ch.close(),
                        None => {
                            let _ = sess.engine.executor().msg().unsub(&format!("chan{c}"));
                        }
                    }
                    reg[*c] = None;
                    per_kind[*c].clear();
                }
                Op::Unsub(c) => {
                    let _ = sess.engine.executor().msg().unsub(&format!("chan{c}"));
                    reg[*c] = None;
                    per_kind[*c].clear();
                }
                Op::EmitOk | Op::EmitErr => {
                    n_proc += 1;
                    let mid = if *op == Op::EmitOk { "ok" } else { "md" };
                    let _ = sess.start(mid, &crate::checks::common::vars_of(&json!({"pid": format!("p{n_proc}")})));
                    sess.drain();
                }
                Op::HeldThen(_) => unreachable!(),
            }
            if held {
                sess.release_dispatch();
                sess.drain();
            }
            if last {
                edges += 1;
                // what the default channel saw during this operation is what was emitted
                let emitted: Vec<(&'static str, Message)> = sess.delivered.lock().unwrap()[before_all..].iter().map(|d| (d.channel, d.msg.clone())).collect();
                let got4: Vec<(usize, &'static str, String, usize)> = logs.lock().unwrap()[before_log..].to_vec();
                let got: Vec<(usize, &'static str, String)> = got4.iter().map(|(a, b, c, _)| (*a, *b, c.clone())).collect();
                for c in 0..2 {
                    if held {
                        // a handler that was replaced while the messages were held is not called any more
                        if let (Op::Open(oc, _, _), Some(old)) = (op, stale_gen[c]) {
                            if *oc == c && got4.iter().any(|(cc, _, _, g)| *cc == c && *g <= old) {
                                let prev_ops: Vec<String> = path.iter().map(|o| format!("{o:?}")).collect();
                                viols.entry("history/old-handler-after-reregister".into()).or_insert((
                                    format!("after {prev_ops:?}: the handler of chan{c} that was replaced before the dispatch was still called"),
                                    path.clone(),
                                ));
                            }
                            if *oc == c {
                                // whether the new handler sees a message generated before it existed is not specified
                                continue;
                            }
                        }
                    }
                    let mut want: Vec<(&'static str, String)> = vec![];
                    for (kind, m) in &emitted {
                        if let Some(v) = per_kind[c].get(kind) {
                            if variant_match(*v, m) {
                                want.push((kind, m.id.clone()));
                            }
                        }
                    }
                    let mut g: Vec<(&'static str, String)> = got.iter().filter(|(cc, _, _)| *cc == c).map(|(_, k, i)| (*k, i.clone())).collect();
                    want.sort();
                    g.sort();
                    if g != want {
                        let prev_ops: Vec<String> = path.iter().map(|o| format!("{o:?}")).collect();
                        let class = if g.len() > want.len() {
                            let extra = g.iter().find(|x| !want.contains(x)).map(|x| x.0).unwrap_or("?");
                            let dupl = g.windows(2).any(|w| w[0] == w[1]);
                            if reg[c].is_none() {
                                format!("history/delivered-after-close/{extra}")
                            } else if dupl {
                                format!("history/duplicate-after-reregister/{extra}")
                            } else {
                                format!("history/delivered-not-matching/{extra}")
                            }
                        } else {
                            let missing = want.iter().find(|x| !g.contains(x)).map(|x| x.0).unwrap_or("?");
                            format!("history/missed/{missing}")
                        };
                        viols.entry(class).or_insert((
                            format!("after {prev_ops:?}: channel chan{c} (registered pattern variant {:?}) received {} deliveries, expected {}", reg[c], g.len(), want.len()),
                            path.clone(),
                        ));
                    }
                }
            }
        }
        seen.insert(reg);
        if path.len() < depth {
            for op in alphabet(&reg) {
                let mut p = path.clone();
                p.push(op);
                queue.push_back(p);
            }
        }
    }
    out.count("states", seen.len() as i64);
    out.count("edges", edges);
    out.count("history_sequences", edges);
    out.count("evaluations", edges);
    out.executions += edges as u64;
    out.transitions += edges as u64;
    for s in &seen {
        out.add_state("history", &format!("{s:?}"));
    }
    if first == 0 {
        out.samples.push(json!({"part": "history", "sequence": "[Open(0,0), Open(0,1), EmitErr, Close(0), EmitOk]", "check": "after the re-registration chan0 receives only workflow/act completed|error messages, once each; after close nothing"}));
    }
    for (sig, (what, path)) in viols {
        out.violations.push(Violation {
            property: "C18".into(),
            sig: sig.clone(),
            scenario: "history".into(),
            detail: String::new(),
            what: what.clone(),
            replay: json!({"property": "C18", "signature": sig, "what": what, "operations": format!("{path:?}")}),
        });
    }
}

pub struct C18;

impl Check for C18 {
    fn info(&self, tier: Tier) -> CheckInfo {
        CheckInfo {
            id: "C18",
            level: "model_checking",
            rule: "matrix: all 7^5 = 16807 channels built from seven patterns per field (*, literal hit, literal miss, prefix*, ?-pattern, {a,b}, [ab]x) registered together on a real engine, the messages of real runs (workflow/step/act, created/completed/skipped/error, keys, uses, node and model tags) dispatched to all of them, each delivery compared with a hand-written truth table; histories: every sequence up to the depth over {open(c, pattern), re-register(c, other pattern), close(c), unsub(c), emit a completing process, emit a failing process, and held operations: a process runs, its messages are held, a registered channel is closed / unsubscribed / re-registered, then the messages are dispatched} for two channels (one registering all four handler kinds, events only, or messages only), deliveries per channel compared with the registered pattern at dispatch".into(),
            assumptions: vec!["dispatch runs right after generation, except in the held operations, where a close / unsub / re-registration lands between the generation of the messages and their dispatch: a closed channel must then receive nothing and a replaced handler must not be called; whether a handler registered after the generation sees those messages is not specified and not judged".into()],
            budget_s: tier.pick(50, 600),
            exhaustive_when_uncapped: true,
            bounds: json!({"patterns_per_field": 7, "history_depth": tier.pick(4, 5), "channels_in_histories": 2}),
        }
    }
    fn items(&self, tier: Tier) -> Vec<Value> {
        let mut v: Vec<Value> = (0..49).map(|s| json!({"id": format!("matrix/{s}"), "scenario": "matrix", "slice": s})).collect();
        for first in 0..12 {
            v.push(json!({"id": format!("history/{first}"), "scenario": "history", "depth": tier.pick(4, 5), "first": first}));
        }
        v
    }
    fn run_item(&self, _tier: Tier, item: &Value, out: &mut ItemOut) {
        match item.get("slice").and_then(|s| s.as_u64()) {
            Some(s) => matrix(s as usize, out),
            None => histories(item["depth"].as_u64().unwrap() as usize, item["first"].as_u64().unwrap() as usize, out),
        }
    }
}
