//! T-mode: activities run on their own OS threads under a baton; at every scheduling point of
//! the engine (hook `point`) the running activity can be preempted. CHESS-style iterative context
//! bounding: every non-preemptive choice everywhere plus at most k preemptions.
use crate::explore::Chooser;
use crate::world::{Kind, ME, Session, Tr, World, run_pending};
use acts::Engine;
use std::panic::{AssertUnwindSafe, catch_unwind};
use std::sync::atomic::Ordering;
use std::sync::{Arc, Mutex};
use std::time::{Duration, Instant};

type Job = Box<dyn FnOnce() + Send>;

struct TAct {
    id: usize,
    label: String,
    started: bool,
    done: bool,
    job: Option<Job>,
    handle: Option<std::thread::JoinHandle<()>>,
    is_exec: bool,
}

pub struct TRun {
    acts: Vec<TAct>,
    pub results: Arc<Mutex<Vec<(String, Result<(), String>)>>>,
    pub slices: usize,
    pub preemptions: usize,
    pub max_points: u64,
    pub max_enabled: usize,
    pub horizon_hit: bool,
}

pub type ClientFn = Box<dyn FnOnce(&Engine) -> acts::Result<()> + Send>;

impl TRun {
    pub fn new() -> TRun {
        TRun {
            acts: vec![],
            results: Arc::new(Mutex::new(vec![])),
            slices: 0,
            preemptions: 0,
            max_points: 0,
            max_enabled: 0,
            horizon_hit: false,
        }
    }

    pub fn add_client(&mut self, sess: &Session, label: &str, f: ClientFn) {
        let id = self.acts.len() + 1;
        let e = sess.engine.clone();
        let r = self.results.clone();
        let l = label.to_string();
        let w = sess.w.clone();
        let job: Job = Box::new(move || {
            w.push_trace(Tr::Begin(format!("client {l}")));
            let out = catch_unwind(AssertUnwindSafe(|| f(&e)));
            let res = match out {
                Ok(Ok(())) => Ok(()),
                Ok(Err(err)) => Err(err.to_string()),
                Err(_) => Err("PANIC".to_string()),
            };
            w.push_trace(Tr::Result(l.clone(), match &res {
                Ok(()) => "ok".into(),
                Err(e) => format!("err: {e}"),
            }));
            r.lock().unwrap().push((l, res));
        });
        self.acts.push(TAct {
            id,
            label: format!("client {label}"),
            started: false,
            done: false,
            job: Some(job),
            handle: None,
            is_exec: false,
        });
    }

    /// move newly spawned engine work into activities (eager dispatches run on this thread)
    fn absorb(&mut self, sess: &mut Session) {
        sess.flush_dispatch();
        let ps: Vec<crate::world::Pending> = {
            let mut p = sess.w.pending.lock().unwrap();
            let mut v: Vec<crate::world::Pending> = p.drain(..).collect();
            v.sort_by_key(|x| x.seq);
            v
        };
        for mut p in ps {
            let id = self.acts.len() + 1;
            let w = sess.w.clone();
            let is_exec = p.kind == Kind::Send;
            let label = format!("{:?}#{}:{}:{}", p.kind, p.seq, p.pid, p.tid);
            let l2 = label.clone();
            let job: Job = Box::new(move || {
                w.push_trace(Tr::Begin(l2));
                run_pending(&w, &mut p);
            });
            self.acts.push(TAct {
                id,
                label,
                started: false,
                done: false,
                job: Some(job),
                handle: None,
                is_exec,
            });
        }
    }

    fn enabled(&mut self, sess: &mut Session, exclude: Option<usize>) -> Vec<usize> {
        self.absorb(sess);
        let exec_in_progress = self.acts.iter().any(|a| a.is_exec && a.started && !a.done);
        let dead = sess.scheduler_dead;
        let mut v: Vec<usize> = self
            .acts
            .iter()
            .filter(|a| !a.done)
            .filter(|a| a.started || !(a.is_exec && (exec_in_progress || dead)))
            .map(|a| a.id)
            .collect();
        // suspended activities first (default = continue), then oldest first
        v.sort_by_key(|id| {
            let a = &self.acts[id - 1];
            (!a.started, *id)
        });
        if let Some(x) = exclude {
            if v.len() > 1 {
                v.retain(|i| *i != x);
            }
        }
        v
    }

    /// run activity `id` until it finishes or is about to pass its `budget`-th point
    fn resume(&mut self, w: &Arc<World>, id: usize, budget: Option<u64>) -> (bool, u64, bool) {
        let a = &mut self.acts[id - 1];
        if !a.started {
            a.started = true;
            let job = a.job.take().unwrap();
            let w2 = w.clone();
            a.handle = Some(
                std::thread::Builder::new()
                    .stack_size(16 << 20)
                    .spawn(move || {
                        ME.with(|m| m.set(id));
                        {
                            let mut c = w2.ctl.lock().unwrap();
                            while c.running != id {
                                c = w2.cv.wait(c).unwrap();
                            }
                        }
                        let r = catch_unwind(AssertUnwindSafe(job));
                        let mut c = w2.ctl.lock().unwrap();
                        if r.is_err() {
                            c.panicked.push((id, String::new()));
                        }
                        c.finished.push(id);
                        c.running = 0;
                        w2.cv.notify_all();
                    })
                    .expect("spawn activity thread"),
            );
        }
        let mut c = w.ctl.lock().unwrap();
        c.running = id;
        c.budget = budget;
        c.slice_points = 0;
        w.cv.notify_all();
        let t0 = Instant::now();
        while c.running != 0 {
            let (g, _) = w.cv.wait_timeout(c, Duration::from_secs(2)).unwrap();
            c = g;
            if c.running != 0 && t0.elapsed() > Duration::from_secs(30) {
                println!("MACHINERY: watchdog: activity {id} neither finished nor reached a point within 30s");
                std::process::exit(2);
            }
        }
        let fin = c.finished.contains(&id);
        let pts = c.slice_points;
        let panicked = c.panicked.iter().any(|(i, _)| *i == id);
        drop(c);
        if fin {
            let a = &mut self.acts[id - 1];
            a.done = true;
            if let Some(h) = a.handle.take() {
                let _ = h.join();
            }
        }
        (fin, pts, panicked)
    }

    /// explore one execution under the chooser until nothing is enabled
    pub fn run(&mut self, ch: &mut Chooser, sess: &mut Session, horizon: usize) {
        sess.w.tmode.store(true, Ordering::SeqCst);
        let w = sess.w.clone();
        let mut exclude = None;
        loop {
            let en = self.enabled(sess, exclude);
            if en.is_empty() {
                break;
            }
            if self.slices >= horizon {
                self.horizon_hit = true;
                ch.horizon_hit = true;
                break;
            }
            self.max_enabled = self.max_enabled.max(en.len());
            // which activity: a free choice (non-preemptive switches are all explored)
            let c = ch.choose_free(en.len());
            let id = en[c];
            let (didx, how) = ch.choose_deferred(1);
            let budget = if how == 0 { None } else { Some(how as u64) };
            let label = self.acts[id - 1].label.clone();
            ch.label(|| match budget {
                None => label.clone(),
                Some(n) => format!("{label} preempted before its point {n}"),
            });
            let (completed, points, panicked) = self.resume(&w, id, budget);
            // a slice that completed after P points could have been preempted before each of them
            if budget.is_none() {
                ch.set_width(didx, points as usize + 1);
            } else {
                if completed {
                    println!("MACHINERY: replay divergence: activity finished before preemption point {how}");
                    std::process::exit(2);
                }
                // alternatives of this decision were generated by the run that discovered the points
                ch.set_width(didx, how + 1);
                self.preemptions += 1;
            }
            self.max_points = self.max_points.max(points);
            if panicked {
                let a = &self.acts[id - 1];
                sess.panics.push(a.label.clone());
                if a.is_exec {
                    sess.scheduler_dead = true;
                    for l in w.loops.lock().unwrap().iter_mut() {
                        *l = None;
                    }
                }
            }
            exclude = if completed { None } else { Some(id) };
            self.slices += 1;
        }
        // release whatever is still suspended (horizon): let the threads finish
        if self.horizon_hit {
            let ids: Vec<usize> = self.acts.iter().filter(|a| a.started && !a.done).map(|a| a.id).collect();
            for id in ids {
                let _ = self.resume(&w, id, None);
            }
        }
        sess.w.tmode.store(false, Ordering::SeqCst);
        self.absorb(sess);
        let res = self.results.lock().unwrap().clone();
        sess.results.extend(res);
    }
}

impl Default for TRun {
    fn default() -> Self {
        Self::new()
    }
}
