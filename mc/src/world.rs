//! The closed world: an implementation of `acts::verif::Hooks` that owns every spawned future,
//! the clock, the id generator and (in T-mode) the scheduling points of the engine.
use acts::verif::{self, Fut, Note, ProcDump, TraceEvent};
use acts::{Engine, EngineBuilder, Message};
use std::collections::HashMap;
use std::future::Future;
use std::panic::{AssertUnwindSafe, Location, catch_unwind};
use std::sync::atomic::{AtomicBool, AtomicI64, AtomicU8, AtomicU64, Ordering};
use std::sync::{Arc, Condvar, Mutex};
use std::task::{Context, Poll, Waker};

#[derive(Debug, Clone, Copy, PartialEq, Eq, Hash)]
pub enum Kind {
    /// a queued task on its way to the scheduler loop (send + the loop body handling it)
    Send,
    Terminate,
    Launch,
    Return,
    /// dispatch of a generated message to the channel handlers
    Dispatch(&'static str),
    /// dispatch of a tick to the tick handlers
    TickDispatch,
}

pub struct Pending {
    pub seq: u64,
    pub kind: Kind,
    pub pid: String,
    pub tid: String,
    pub fut: Fut,
}

#[derive(Debug, Clone, PartialEq, Eq)]
pub struct ActRef {
    pub seq: u64,
    pub kind: Kind,
    pub pid: String,
    pub tid: String,
}

impl ActRef {
    pub fn label(&self) -> String {
        format!("{:?}#{}:{}:{}", self.kind, self.seq, self.pid, self.tid)
    }
}

/// owned trace event
#[derive(Debug, Clone)]
pub enum Tr {
    StateWrite {
        pid: String,
        tid: String,
        nid: String,
        kind: String,
        old: String,
        new: String,
        pure: bool,
    },
    TaskEvent {
        pid: String,
        tid: String,
        nid: String,
        kind: String,
        state: String,
        emit_message: bool,
        uses: String,
        key: String,
        prev: Option<String>,
        level: usize,
        is_hook: bool,
        dump: Option<ProcDump>,
    },
    ProcEvent {
        pid: String,
        state: String,
        dump: Option<ProcDump>,
    },
    Emit {
        channel: &'static str,
        msg: Message,
    },
    /// inserted by the harness: an activity or client operation starts
    Begin(String),
    /// inserted by the harness: result of a client operation
    Result(String, String),
}

/// set when an activity was ended by the point limit; read and cleared by the explorer after each execution
pub static DIVERGED: std::sync::atomic::AtomicBool = std::sync::atomic::AtomicBool::new(false);
pub static MAX_ACTIVITY_POINTS: AtomicU64 = AtomicU64::new(0);

pub fn point_limit() -> u64 {
    static L: std::sync::OnceLock<u64> = std::sync::OnceLock::new();
    *L.get_or_init(|| std::env::var("VERIF_POINT_LIMIT").ok().and_then(|s| s.parse().ok()).unwrap_or(300_000))
}

/// T-mode controller state (baton)
pub struct Ctl {
    pub running: usize,
    pub budget: Option<u64>,
    pub slice_points: u64,
    pub finished: Vec<usize>,
    pub panicked: Vec<(usize, String)>,
}

pub struct World {
    pub pending: Mutex<Vec<Pending>>,
    pub loops: Mutex<Vec<Option<Fut>>>,
    pub clock: AtomicI64,
    pub ids: AtomicU64,
    pub seq: AtomicU64,
    pub trace: Mutex<Vec<Tr>>,
    /// dump policy of the trace (see `DUMP_*`)
    pub want_dumps: AtomicU8,
    pub want_writes: AtomicBool,
    pub points: AtomicU64,
    /// scheduling points passed by the running activity (A-mode)
    pub activity_points: AtomicU64,
    /// classes of points that may preempt (T-mode); empty = all
    pub ctl: Mutex<Ctl>,
    pub cv: Condvar,
    pub tmode: AtomicBool,
    pub unknown_spawn: Mutex<Vec<String>>,
}

thread_local! {
    pub static ME: std::cell::Cell<usize> = const { std::cell::Cell::new(0) };
}

/// no process dumps in the trace
pub const DUMP_NONE: u8 = 0;
/// structural dump at every task / process event
pub const DUMP_LIGHT: u8 = 1;
/// full dump at every task / process event
pub const DUMP_FULL: u8 = 2;
/// full dump when a task is reported in error (catch test), nothing else
pub const DUMP_ON_ERROR: u8 = 3;
/// structural dump when a task is reported completed and at process events
pub const DUMP_ON_COMPLETED: u8 = 4;

pub const T0_MICROS: i64 = 1_700_000_000_000_000;

impl World {
    pub fn new() -> Arc<World> {
        Arc::new(World {
            pending: Mutex::new(vec![]),
            loops: Mutex::new(vec![]),
            clock: AtomicI64::new(T0_MICROS),
            ids: AtomicU64::new(0),
            seq: AtomicU64::new(0),
            trace: Mutex::new(vec![]),
            want_dumps: AtomicU8::new(DUMP_NONE),
            want_writes: AtomicBool::new(true),
            points: AtomicU64::new(0),
            activity_points: AtomicU64::new(0),
            ctl: Mutex::new(Ctl {
                running: 0,
                budget: None,
                slice_points: 0,
                finished: vec![],
                panicked: vec![],
            }),
            cv: Condvar::new(),
            tmode: AtomicBool::new(false),
            unknown_spawn: Mutex::new(vec![]),
        })
    }
    pub fn advance_ms(&self, ms: i64) {
        self.clock.fetch_add(ms * 1000, Ordering::SeqCst);
    }
    pub fn now_ms(&self) -> i64 {
        self.clock.load(Ordering::SeqCst) / 1000
    }
    pub fn push_trace(&self, t: Tr) {
        self.trace.lock().unwrap().push(t);
    }
    pub fn trace_len(&self) -> usize {
        self.trace.lock().unwrap().len()
    }
    pub fn trace_snapshot(&self) -> Vec<Tr> {
        self.trace.lock().unwrap().clone()
    }
}

impl verif::Hooks for World {
    fn spawn(&self, site: &'static Location<'static>, note: Option<Note>, fut: Fut) {
        let (kind, pid, tid) = match &note {
            Some(n) => {
                let k = match n.kind {
                    "send" => Some(Kind::Send),
                    "terminate" => Some(Kind::Terminate),
                    "launch" => Some(Kind::Launch),
                    "return" => Some(Kind::Return),
                    "message" => Some(Kind::Dispatch("message")),
                    "start" => Some(Kind::Dispatch("start")),
                    "complete" => Some(Kind::Dispatch("complete")),
                    "error" => Some(Kind::Dispatch("error")),
                    "tick" => Some(Kind::TickDispatch),
                    "loop" => {
                        self.loops.lock().unwrap().push(Some(fut));
                        return;
                    }
                    "timer" => {
                        // the tick timer needs tokio's time driver; ticks are explicit operations
                        drop(fut);
                        return;
                    }
                    _ => None,
                };
                (k, n.pid.clone(), n.tid.clone())
            }
            None => (None, String::new(), String::new()),
        };
        let kind = match kind {
            Some(k) => k,
            None => {
                self.unknown_spawn
                    .lock()
                    .unwrap()
                    .push(format!("{}:{} note={:?}", site.file(), site.line(), note));
                return;
            }
        };
        let seq = self.seq.fetch_add(1, Ordering::SeqCst);
        self.pending.lock().unwrap().push(Pending {
            seq,
            kind,
            pid,
            tid,
            fut,
        });
    }

    fn point(&self, _class: &'static str, _pid: &str, _tid: &str) {
        self.points.fetch_add(1, Ordering::Relaxed);
        if !self.tmode.load(Ordering::Relaxed) {
            // an activity that passes this many scheduling points without returning is spinning
            // inside the engine: end it (once) so that the exploration itself always terminates
            if self.activity_points.fetch_add(1, Ordering::Relaxed) == point_limit() {
                DIVERGED.store(true, Ordering::SeqCst);
                panic!("VERIF: an engine activity passed {} scheduling points without returning", point_limit());
            }
            return;
        }
        let me = ME.with(|m| m.get());
        if me == 0 {
            return;
        }
        let mut c = self.ctl.lock().unwrap();
        c.slice_points += 1;
        if c.budget == Some(c.slice_points) {
            c.running = 0;
            self.cv.notify_all();
            while c.running != me {
                c = self.cv.wait(c).unwrap();
            }
        }
    }

    fn now_micros(&self) -> Option<i64> {
        Some(self.clock.fetch_add(1, Ordering::SeqCst))
    }

    fn next_id(&self, len: usize) -> Option<String> {
        let n = self.ids.fetch_add(1, Ordering::SeqCst);
        Some(format!("{:0>w$}", n, w = len))
    }

    fn trace(&self, ev: &TraceEvent<'_>) {
        let policy = self.want_dumps.load(Ordering::Relaxed);
        let task_dump = |state: &str, dump: &dyn Fn(bool) -> ProcDump| match policy {
            DUMP_LIGHT => Some(dump(false)),
            DUMP_FULL => Some(dump(true)),
            DUMP_ON_ERROR if state == "error" => Some(dump(true)),
            DUMP_ON_COMPLETED if state == "completed" => Some(dump(false)),
            _ => None,
        };
        let proc_dump = |dump: &dyn Fn(bool) -> ProcDump| match policy {
            DUMP_LIGHT | DUMP_ON_COMPLETED => Some(dump(false)),
            DUMP_FULL => Some(dump(true)),
            _ => None,
        };
        let t = match ev {
            TraceEvent::StateWrite {
                pid,
                tid,
                nid,
                kind,
                old,
                new,
                pure,
            } => {
                if !self.want_writes.load(Ordering::Relaxed) {
                    return;
                }
                Tr::StateWrite {
                    pid: pid.to_string(),
                    tid: tid.to_string(),
                    nid: nid.to_string(),
                    kind: kind.clone(),
                    old: old.clone(),
                    new: new.clone(),
                    pure: *pure,
                }
            }
            TraceEvent::TaskEvent {
                pid,
                tid,
                nid,
                kind,
                state,
                emit_message,
                uses,
                key,
                prev,
                level,
                is_hook,
                dump,
            } => Tr::TaskEvent {
                pid: pid.to_string(),
                tid: tid.to_string(),
                nid: nid.to_string(),
                kind: kind.clone(),
                state: state.clone(),
                emit_message: *emit_message,
                uses: uses.clone(),
                key: key.clone(),
                prev: prev.clone(),
                level: *level,
                is_hook: *is_hook,
                dump: task_dump(state, dump),
            },
            TraceEvent::ProcEvent { pid, state, dump } => Tr::ProcEvent {
                pid: pid.to_string(),
                state: state.clone(),
                dump: proc_dump(dump),
            },
            TraceEvent::Emit { channel, msg } => Tr::Emit {
                channel,
                msg: (*msg).clone(),
            },
        };
        self.trace.lock().unwrap().push(t);
    }
}

pub fn poll_once(fut: &mut Fut) -> bool {
    let w = Waker::noop();
    let mut cx = Context::from_waker(w);
    matches!(fut.as_mut().poll(&mut cx), Poll::Ready(()))
}

pub fn block_on_ready<T>(fut: impl Future<Output = T>) -> T {
    let mut fut = Box::pin(fut);
    let w = Waker::noop();
    let mut cx = Context::from_waker(w);
    match fut.as_mut().poll(&mut cx) {
        Poll::Ready(v) => v,
        Poll::Pending => panic!("machinery: future expected to be ready is pending"),
    }
}

#[derive(Debug, Clone, Default, PartialEq)]
pub struct Cfg {
    pub keep: bool,
    /// path of a sqlite file; None = in-memory store
    pub sqlite: Option<String>,
    pub cache_cap: Option<i64>,
    pub tick_secs: Option<i64>,
    pub max_retry: Option<i32>,
}

impl Cfg {
    pub fn keep() -> Cfg {
        Cfg {
            keep: true,
            ..Default::default()
        }
    }
    pub fn to_json(&self) -> serde_json::Value {
        serde_json::json!({"keep_processes": self.keep, "store": if self.sqlite.is_some() {"sqlite"} else {"memory"},
            "cache_cap": self.cache_cap, "tick_interval_secs": self.tick_secs, "max_message_retry_times": self.max_retry})
    }
}

static SCRATCH_N: AtomicU64 = AtomicU64::new(0);

pub fn scratch_path(ext: &str) -> String {
    let n = SCRATCH_N.fetch_add(1, Ordering::SeqCst);
    let dir = if std::path::Path::new("/dev/shm").is_dir() {
        "/dev/shm".to_string()
    } else {
        std::env::temp_dir().to_string_lossy().to_string()
    };
    format!("{}/mc-{}-{}.{}", dir, std::process::id(), n, ext)
}

pub fn build_engine(cfg: &Cfg) -> Engine {
    let mut toml = String::new();
    if let Some(v) = cfg.cache_cap {
        toml += &format!("cache_cap = {v}\n");
    }
    if let Some(v) = cfg.tick_secs {
        toml += &format!("tick_interval_secs = {v}\n");
    }
    if let Some(v) = cfg.max_retry {
        toml += &format!("max_message_retry_times = {v}\n");
    }
    if cfg.keep {
        toml += "keep_processes = true\n";
    }
    if let Some(p) = &cfg.sqlite {
        toml += &format!("\n[sqlite]\ndatabase_url = \"sqlite://{p}\"\n");
    }
    let path = scratch_path("toml");
    std::fs::write(&path, toml).expect("write config");
    let mut b = EngineBuilder::new().set_config_source(std::path::Path::new(&path));
    if cfg.sqlite.is_some() {
        b = b.add_plugin(&acts_store_sqlite::SqliteStore);
    }
    let engine = block_on_ready(b.build()).expect("engine build");
    let _ = std::fs::remove_file(&path);
    engine.start()
}

/// what the default channel delivered
#[derive(Debug, Clone)]
pub struct Delivered {
    pub channel: &'static str,
    pub chan_id: String,
    pub msg: Message,
}

/// One closed-world session: world + engine(s) + default-channel logs.
pub struct Session {
    pub w: Arc<World>,
    pub engine: Engine,
    pub cfg: Cfg,
    pub delivered: Arc<Mutex<Vec<Delivered>>>,
    /// labels of activities / client operations that panicked
    pub panics: Vec<String>,
    /// the production scheduler task is dead (its body panicked)
    pub scheduler_dead: bool,
    /// dispatch kinds that are explicit activities instead of being run eagerly
    pub explicit_dispatch: bool,
    pub results: Vec<(String, Result<(), String>)>,
    pub sqlite_files: Vec<String>,
    pub old_engines: Vec<Engine>,
}

pub fn install_panic_hook_quiet() {
    std::panic::set_hook(Box::new(|_| {}));
}

impl Session {
    pub fn new(cfg: &Cfg) -> Session {
        // "@scratch" = a fresh scratch file per session
        let mut cfg = cfg.clone();
        if cfg.sqlite.as_deref() == Some("@scratch") {
            cfg.sqlite = Some(scratch_path("db"));
        }
        let cfg = &cfg;
        let w = World::new();
        verif::install(w.clone());
        let engine = build_engine(cfg);
        let mut s = Session {
            w,
            engine,
            cfg: cfg.clone(),
            delivered: Arc::new(Mutex::new(vec![])),
            panics: vec![],
            scheduler_dead: false,
            explicit_dispatch: false,
            results: vec![],
            sqlite_files: vec![],
            old_engines: vec![],
        };
        if let Some(p) = &cfg.sqlite {
            s.sqlite_files.push(p.clone());
        }
        s.attach_default_channel();
        s
    }

    pub fn attach_default_channel(&self) {
        let ch = self.engine.channel_with_options(&acts::ChannelOptions {
            id: "default".to_string(),
            ..Default::default()
        });
        for name in ["message", "start", "complete", "error"] {
            let d = self.delivered.clone();
            let f = move |e: &acts::Event<Message>| {
                d.lock().unwrap().push(Delivered {
                    channel: name,
                    chan_id: "default".into(),
                    msg: e.inner().clone(),
                });
            };
            match name {
                "message" => ch.on_message(f),
                "start" => ch.on_start(f),
                "complete" => ch.on_complete(f),
                _ => ch.on_error(f),
            }
        }
    }

    /// a new engine on the same store (sqlite only keeps the data); the old one is abandoned
    pub fn restart(&mut self) {
        // whatever the old engine still had in flight dies with it
        self.w.pending.lock().unwrap().clear();
        for l in self.w.loops.lock().unwrap().iter_mut() {
            *l = None;
        }
        let engine = build_engine(&self.cfg);
        let old = std::mem::replace(&mut self.engine, engine);
        self.old_engines.push(old);
        self.attach_default_channel();
    }

    pub fn deploy(&self, yml: &str) -> acts::Workflow {
        let wf = acts::Workflow::from_yml(yml).unwrap_or_else(|e| panic!("machinery: bad yaml: {e}\n{yml}"));
        self.engine
            .executor()
            .model()
            .deploy(&wf)
            .unwrap_or_else(|e| panic!("machinery: deploy failed: {e}\n{yml}"));
        wf
    }

    fn is_eager(&self, k: Kind) -> bool {
        matches!(k, Kind::Dispatch(_)) && !self.explicit_dispatch
    }

    /// run the eager dispatches in spawn order
    pub fn flush_dispatch(&mut self) {
        loop {
            let p = {
                let mut p = self.w.pending.lock().unwrap();
                let i = p.iter().position(|x| self.is_eager(x.kind));
                i.map(|i| p.remove(i))
            };
            match p {
                Some(mut p) => {
                    let r = catch_unwind(AssertUnwindSafe(|| poll_once(&mut p.fut)));
                    match r {
                        Ok(true) => {}
                        Ok(false) => panic!("machinery: dispatch future pending"),
                        Err(_) => self.panics.push(format!("{:?}#{}", p.kind, p.seq)),
                    }
                }
                None => break,
            }
        }
    }

    pub fn enabled(&mut self) -> Vec<ActRef> {
        self.flush_dispatch();
        let mut v: Vec<ActRef> = self
            .w
            .pending
            .lock()
            .unwrap()
            .iter()
            .filter(|p| !(self.scheduler_dead && p.kind == Kind::Send))
            .map(|p| ActRef {
                seq: p.seq,
                kind: p.kind,
                pid: p.pid.clone(),
                tid: p.tid.clone(),
            })
            .collect();
        v.sort_by_key(|a| a.seq);
        v
    }

    pub fn take(&self, seq: u64) -> Pending {
        let mut p = self.w.pending.lock().unwrap();
        let i = p
            .iter()
            .position(|x| x.seq == seq)
            .expect("machinery: activity not pending");
        p.remove(i)
    }

    /// run one pending activity atomically (A-mode)
    pub fn run(&mut self, seq: u64) {
        self.flush_dispatch();
        let mut p = self.take(seq);
        let label = format!("{:?}#{}:{}:{}", p.kind, p.seq, p.pid, p.tid);
        self.w.push_trace(Tr::Begin(label.clone()));
        let w = self.w.clone();
        let kind = p.kind;
        self.w.activity_points.store(0, Ordering::Relaxed);
        let r = catch_unwind(AssertUnwindSafe(|| {
            run_pending(&w, &mut p);
        }));
        MAX_ACTIVITY_POINTS.fetch_max(self.w.activity_points.load(Ordering::Relaxed), Ordering::Relaxed);
        if r.is_err() {
            self.panics.push(label);
            if kind == Kind::Send {
                // the production scheduler task died with this panic
                self.scheduler_dead = true;
                for l in self.w.loops.lock().unwrap().iter_mut() {
                    *l = None;
                }
            }
        }
        self.flush_dispatch();
    }

    /// FIFO run to quiescence of everything except event dispatch: the generated messages stay
    /// undelivered until `release_dispatch`
    pub fn drain_holding_dispatch(&mut self) {
        self.explicit_dispatch = true;
        for _ in 0..2000 {
            let acts = self.enabled();
            match acts.iter().find(|a| !matches!(a.kind, Kind::Dispatch(_))) {
                Some(a) => {
                    let seq = a.seq;
                    self.run(seq);
                }
                None => break,
            }
        }
    }

    /// deliver what `drain_holding_dispatch` held back, in generation order
    pub fn release_dispatch(&mut self) {
        self.explicit_dispatch = false;
        self.flush_dispatch();
    }

    /// FIFO run to quiescence
    pub fn drain(&mut self) -> usize {
        let mut n = 0;
        loop {
            let en = self.enabled();
            if en.is_empty() || n > 2000 {
                break;
            }
            self.run(en[0].seq);
            n += 1;
        }
        n
    }

    pub fn tick(&mut self) {
        self.w.push_trace(Tr::Begin("tick".into()));
        self.engine.verif().tick();
    }

    /// client operation with panic capture and result log
    pub fn client<F: FnOnce(&Engine) -> acts::Result<()>>(&mut self, label: &str, f: F) -> Result<(), String> {
        self.w.push_trace(Tr::Begin(format!("client {label}")));
        let e = self.engine.clone();
        self.w.activity_points.store(0, Ordering::Relaxed);
        let r = catch_unwind(AssertUnwindSafe(|| f(&e)));
        MAX_ACTIVITY_POINTS.fetch_max(self.w.activity_points.load(Ordering::Relaxed), Ordering::Relaxed);
        let res = match r {
            Ok(Ok(())) => Ok(()),
            Ok(Err(err)) => Err(err.to_string()),
            Err(_) => {
                self.panics.push(format!("client {label}"));
                Err("PANIC".to_string())
            }
        };
        self.w.push_trace(Tr::Result(
            label.to_string(),
            match &res {
                Ok(()) => "ok".into(),
                Err(e) => format!("err: {e}"),
            },
        ));
        self.results.push((label.to_string(), res.clone()));
        res
    }

    pub fn act(&mut self, kind: &str, pid: &str, tid: &str, opts: &acts::Vars) -> Result<(), String> {
        let label = format!("{kind} {pid}:{tid} {opts}");
        let (kind, pid, tid, opts) = (kind.to_string(), pid.to_string(), tid.to_string(), opts.clone());
        self.client(&label, move |e| {
            let ex = e.executor();
            let a = ex.act();
            match kind.as_str() {
                "complete" => a.complete(&pid, &tid, &opts),
                "submit" => a.submit(&pid, &tid, &opts),
                "back" => a.back(&pid, &tid, &opts),
                "cancel" => a.cancel(&pid, &tid, &opts),
                "abort" => a.abort(&pid, &tid, &opts),
                "skip" => a.skip(&pid, &tid, &opts),
                "error" => a.error(&pid, &tid, &opts),
                "push" => a.push(&pid, &tid, &opts),
                "remove" => a.remove(&pid, &tid, &opts),
                "set_process_vars" => a.set_process_vars(&pid, &tid, &opts),
                k => panic!("machinery: unknown action {k}"),
            }
        })
    }

    pub fn start(&mut self, mid: &str, vars: &acts::Vars) -> Result<(), String> {
        let label = format!("start {mid} {vars}");
        let (mid, vars) = (mid.to_string(), vars.clone());
        self.client(&label, move |e| e.executor().proc().start(&mid, &vars).map(|_| ()))
    }

    /// messages generated so far (generation order), channel "message"
    pub fn messages(&self) -> Vec<Message> {
        self.w
            .trace
            .lock()
            .unwrap()
            .iter()
            .filter_map(|t| match t {
                Tr::Emit { channel: "message", msg } => Some(msg.clone()),
                _ => None,
            })
            .collect()
    }

    /// (channel, msg) of the start/complete/error events generated so far
    pub fn proc_events(&self) -> Vec<(&'static str, Message)> {
        self.w
            .trace
            .lock()
            .unwrap()
            .iter()
            .filter_map(|t| match t {
                Tr::Emit { channel, msg } if *channel != "message" => Some((*channel, msg.clone())),
                _ => None,
            })
            .collect()
    }

    /// open interrupt acts according to the message stream (what a client can know):
    /// created `act` messages of irq packages without a later terminal message of the same task
    pub fn open_irqs(&self, pid: Option<&str>) -> Vec<Message> {
        let msgs = self.messages();
        let mut last: HashMap<(String, String), &Message> = HashMap::new();
        let mut order: Vec<(String, String)> = vec![];
        for m in msgs.iter() {
            if m.r#type != "act" || m.retry_times > 0 {
                continue;
            }
            let k = (m.pid.clone(), m.tid.clone());
            if !last.contains_key(&k) {
                order.push(k.clone());
            }
            // a created message after a terminal one does not reopen the task
            match last.get(&k) {
                Some(prev) if prev.state != acts::MessageState::Created => {}
                _ => {
                    last.insert(k, m);
                }
            }
        }
        order
            .into_iter()
            .filter_map(|k| {
                let m = last[&k];
                if m.state == acts::MessageState::Created
                    && m.uses == "acts.core.irq"
                    && pid.map(|p| p == m.pid).unwrap_or(true)
                {
                    Some(m.clone())
                } else {
                    None
                }
            })
            .collect()
    }

    pub fn tid_of_key(&self, pid: &str, key: &str) -> Option<String> {
        self.messages()
            .iter()
            .rev()
            .find(|m| m.pid == pid && m.key == key)
            .map(|m| m.tid.clone())
    }

    pub fn dump(&self, pid: &str) -> Option<ProcDump> {
        self.engine.verif().dump(pid)
    }

    /// structural view (no serialised data / hooks / env)
    pub fn dump_light(&self, pid: &str) -> Option<ProcDump> {
        self.engine.verif().dump_light(pid)
    }

    pub fn machinery_errors(&self) -> Vec<String> {
        self.w.unknown_spawn.lock().unwrap().clone()
    }
}

pub fn run_pending(w: &Arc<World>, p: &mut Pending) {
    let done = poll_once(&mut p.fut);
    if !done {
        panic!("machinery: activity future {:?} pending", p.kind);
    }
    if matches!(p.kind, Kind::Send | Kind::Terminate) {
        // the production loop body handles exactly the signal that was just sent
        let n = w.loops.lock().unwrap().len();
        for i in 0..n {
            let f = w.loops.lock().unwrap()[i].take();
            if let Some(mut f) = f {
                let done = poll_once(&mut f);
                if !done {
                    w.loops.lock().unwrap()[i] = Some(f);
                }
            }
        }
    }
}

impl Drop for Session {
    fn drop(&mut self) {
        // the runtime and its handlers refer to each other: without this every engine would stay allocated
        self.engine.verif().teardown();
        verif::uninstall();
        // break the reference cycles of in-flight futures
        self.w.pending.lock().unwrap().clear();
        self.w.loops.lock().unwrap().clear();
        for f in &self.sqlite_files {
            let _ = std::fs::remove_file(f);
            let _ = std::fs::remove_file(format!("{f}-wal"));
            let _ = std::fs::remove_file(format!("{f}-shm"));
            let _ = std::fs::remove_file(format!("{f}-journal"));
        }
    }
}
