//! A-mode: every activity (queued task execution, launch, return, explicit dispatch, client
//! operation) is atomic; the explorer enumerates their orders.
use crate::explore::{Chooser, fnv};
use crate::world::{ActRef, Kind, Session, Tr};
use acts::verif::ProcDump;
use std::rc::Rc;

#[derive(Clone)]
pub struct Op {
    pub label: String,
    pub f: Rc<dyn Fn(&mut Session)>,
}

impl Op {
    pub fn new(label: impl Into<String>, f: impl Fn(&mut Session) + 'static) -> Op {
        Op {
            label: label.into(),
            f: Rc::new(f),
        }
    }
    pub fn act(kind: &str, pid: &str, tid: &str, opts: acts::Vars) -> Op {
        let (k, p, t) = (kind.to_string(), pid.to_string(), tid.to_string());
        Op::new(format!("{kind} {pid}:{tid}"), move |s: &mut Session| {
            let _ = s.act(&k, &p, &t, &opts);
        })
    }
}

pub struct Step<'a> {
    pub quiescent: bool,
    pub sess: &'a mut Session,
}

pub struct ARun {
    pub steps: usize,
    pub horizon_hit: bool,
    pub states: Vec<u64>,
    pub max_enabled: usize,
}

pub fn fingerprint(s: &Session, acts: &[ActRef]) -> u64 {
    let mut t = String::new();
    for pid in s.engine.verif().cached_pids() {
        if let Some(d) = s.dump_light(&pid) {
            t.push_str(&canon_dump(&d));
        }
    }
    for a in acts {
        t.push_str(&format!("|{:?}:{}:{}", a.kind, a.pid, a.tid));
    }
    fnv(&t)
}

pub fn canon_dump(d: &ProcDump) -> String {
    let mut t = format!("P {} {} ", d.pid, d.state);
    for k in &d.tasks {
        t.push_str(&format!("[{} {} {} {:?}]", k.tid, k.nid, k.state, k.prev));
    }
    t
}

/// The generic A-mode loop. `policy` lists the client operations enabled now (they are offered
/// after the engine activities); `observe` is called after every step and at every quiescent
/// point (no engine activity pending) *before* a client operation is chosen.
pub fn run_amode(
    ch: &mut Chooser,
    sess: &mut Session,
    horizon: usize,
    policy: &mut dyn FnMut(&Session) -> Vec<Op>,
    observe: &mut dyn FnMut(&mut Session, bool),
) -> ARun {
    let mut r = ARun {
        steps: 0,
        horizon_hit: false,
        states: vec![],
        max_enabled: 0,
    };
    loop {
        let acts = sess.enabled();
        let quiescent = acts.is_empty();
        r.states.push(fingerprint(sess, &acts));
        observe(sess, quiescent);
        let ops = policy(sess);
        let n = acts.len() + ops.len();
        r.max_enabled = r.max_enabled.max(n);
        if n == 0 {
            break;
        }
        if r.steps >= horizon {
            r.horizon_hit = true;
            ch.horizon_hit = true;
            break;
        }
        let c = ch.choose(n);
        if c < acts.len() {
            ch.label(|| acts[c].label());
            sess.run(acts[c].seq);
        } else {
            let op = &ops[c - acts.len()];
            ch.label(|| format!("client {}", op.label));
            (op.f)(sess);
        }
        r.steps += 1;
    }
    r
}

/// textual log of a trace (deterministic under replay): used for digests, replay files and samples
pub fn trace_log(trace: &[Tr]) -> Vec<String> {
    let mut v = Vec::with_capacity(trace.len());
    for t in trace {
        match t {
            Tr::StateWrite {
                pid,
                tid,
                nid,
                kind,
                old,
                new,
                pure,
            } => v.push(format!("  write {pid}:{tid} {kind} {nid} {old}->{new}{}", if *pure { " (pure)" } else { "" })),
            Tr::TaskEvent {
                pid,
                tid,
                nid,
                kind,
                state,
                ..
            } => v.push(format!("  task-event {pid}:{tid} {kind} {nid} {state}")),
            Tr::ProcEvent { pid, state, .. } => v.push(format!("  proc-event {pid} {state}")),
            Tr::Emit { channel, msg } => v.push(format!(
                "  emit {channel} {}:{} {} nid={} key={} uses={} state={:?} retry={}",
                msg.pid, msg.tid, msg.r#type, msg.nid, msg.key, msg.uses, msg.state, msg.retry_times
            )),
            Tr::Begin(l) => v.push(format!("> {l}")),
            Tr::Result(l, r) => v.push(format!("  result {l} => {r}")),
        }
    }
    v
}

pub fn digest(log: &[String], extra: &str) -> u64 {
    let mut h = fnv(extra);
    for l in log {
        h = h.rotate_left(5) ^ fnv(l);
    }
    h
}

/// does the process have a terminal event (complete / error) in the trace?
pub fn terminal_events(trace: &[Tr], pid: &str) -> Vec<(&'static str, acts::Message)> {
    trace
        .iter()
        .filter_map(|t| match t {
            Tr::Emit { channel, msg } if (*channel == "complete" || *channel == "error") && msg.pid == pid => {
                Some((*channel, msg.clone()))
            }
            _ => None,
        })
        .collect()
}

pub fn is_terminal_state(s: &str) -> bool {
    matches!(
        s,
        "completed" | "submitted" | "skipped" | "backed" | "cancelled" | "aborted" | "removed" | "error"
    )
}

#[allow(dead_code)]
pub fn kind_is_send(k: Kind) -> bool {
    k == Kind::Send
}
