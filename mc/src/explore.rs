//! Stateless search by re-execution: a state is the choice sequence reaching it.
use std::collections::HashSet;

/// Decision source of one execution: replays a prefix, then takes choice 0 everywhere.
pub struct Chooser {
    prefix: Vec<u32>,
    pub taken: Vec<u32>,
    pub widths: Vec<u32>,
    /// cost of taking a non-default alternative at this decision (0 = free)
    pub costs: Vec<u8>,
    pub labels: Vec<String>,
    pub want_labels: bool,
    pub horizon_hit: bool,
}

impl Chooser {
    pub fn new(prefix: &[u32]) -> Chooser {
        Chooser {
            prefix: prefix.to_vec(),
            taken: vec![],
            widths: vec![],
            costs: vec![],
            labels: vec![],
            want_labels: false,
            horizon_hit: false,
        }
    }
    /// choose one of `n` alternatives; alternative 0 is the default, any other is a deviation
    pub fn choose(&mut self, n: usize) -> usize {
        self.choose_cost(n, 1)
    }
    /// alternatives that are not deviations (client inputs, environment alphabet)
    pub fn choose_free(&mut self, n: usize) -> usize {
        self.choose_cost(n, 0)
    }
    pub fn choose_cost(&mut self, n: usize, cost: u8) -> usize {
        assert!(n > 0, "machinery: choose(0)");
        let i = self.taken.len();
        let c = if i < self.prefix.len() { self.prefix[i] } else { 0 };
        if (c as usize) >= n {
            // a different enabled set while replaying a prefix: never a verdict
            println!("MACHINERY: replay divergence at decision {i}: choice {c} of {n}; prefix {:?}", self.prefix);
            std::process::exit(2);
        }
        self.taken.push(c);
        self.widths.push(n as u32);
        self.costs.push(cost);
        c as usize
    }
    /// a decision whose number of alternatives is only known afterwards (`set_width`)
    pub fn choose_deferred(&mut self, cost: u8) -> (usize, usize) {
        let i = self.taken.len();
        let c = if i < self.prefix.len() { self.prefix[i] } else { 0 };
        self.taken.push(c);
        self.widths.push(1);
        self.costs.push(cost);
        (i, c as usize)
    }
    pub fn set_width(&mut self, idx: usize, n: usize) {
        if (self.taken[idx] as usize) >= n.max(1) {
            println!("MACHINERY: replay divergence at deferred decision {idx}: choice {} of {n}; prefix {:?}", self.taken[idx], self.prefix);
            std::process::exit(2);
        }
        self.widths[idx] = n.max(1) as u32;
    }
    pub fn label(&mut self, f: impl FnOnce() -> String) {
        if self.want_labels {
            self.labels.push(f());
        }
    }
    pub fn replaying(&self) -> bool {
        self.taken.len() < self.prefix.len()
    }
    pub fn deviations(&self) -> usize {
        self.taken
            .iter()
            .zip(self.costs.iter())
            .filter(|(t, c)| **t != 0 && **c > 0)
            .count()
    }
}

#[derive(Debug, Default, Clone)]
pub struct DfsStats {
    pub executions: u64,
    pub transitions: u64,
    pub max_width: u32,
    pub max_depth: usize,
    pub capped: bool,
    pub horizon_hits: u64,
    /// largest deviation bound fully explored (None = unbounded, exhaustive)
    pub bound: Option<usize>,
    pub pruned_by_bound: u64,
    /// subtrees left unexplored because the per-item execution budget was used up (to be re-queued)
    pub remaining: Vec<Vec<u32>>,
}

/// Depth-first enumeration of every choice sequence with at most `bound` costly deviations.
/// `run` performs one complete execution under the chooser; `visit` sees the result.
/// Returns statistics; stops (capped = true) after `cap` executions.
pub fn dfs<O>(
    bound: Option<usize>,
    cap: u64,
    run: impl FnMut(&mut Chooser) -> O,
    visit: impl FnMut(&Chooser, O) -> bool,
) -> DfsStats {
    dfs_from(bound, cap, &[], false, u64::MAX, run, visit)
}

/// As `dfs`, but the search starts at `start` (a decision prefix) instead of the empty prefix;
/// with `single` only that one execution is run.
pub fn dfs_from<O>(
    bound: Option<usize>,
    cap: u64,
    start: &[u32],
    single: bool,
    spill_after: u64,
    mut run: impl FnMut(&mut Chooser) -> O,
    mut visit: impl FnMut(&Chooser, O) -> bool,
) -> DfsStats {
    let mut st = DfsStats {
        bound,
        ..Default::default()
    };
    // the frontier is ordered by the number of deviations from the default schedule (fewest first,
    // depth-first among equals): the first counterexample has the fewest deviations, and a capped
    // search has covered the schedules with the fewest deviations first
    // (three classes: 0, 1, and 2-or-more deviations; the last class is plain depth-first so that the
    // frontier stays as small as a depth-first stack)
    let devs = |p: &Vec<u32>| p.iter().filter(|x| **x != 0).count().min(2);
    let mut buckets: Vec<Vec<Vec<u32>>> = vec![];
    let put = |buckets: &mut Vec<Vec<Vec<u32>>>, p: Vec<u32>| {
        let d = devs(&p);
        if buckets.len() <= d {
            buckets.resize(d + 1, vec![]);
        }
        buckets[d].push(p);
    };
    put(&mut buckets, start.to_vec());
    loop {
        let Some(prefix) = buckets.iter_mut().find(|b| !b.is_empty()).and_then(|b| b.pop()) else { break };
        let mut ch = Chooser::new(&prefix);
        let o = run(&mut ch);
        st.executions += 1;
        let new_edges = if prefix.is_empty() { ch.taken.len() } else { ch.taken.len() + 1 - prefix.len() };
        st.transitions += new_edges.max(1) as u64;
        st.max_depth = st.max_depth.max(ch.taken.len());
        if ch.horizon_hit {
            st.horizon_hits += 1;
        }
        for w in &ch.widths {
            st.max_width = st.max_width.max(*w);
        }
        if !single {
            for p in children(&ch, prefix.len(), bound, &mut st.pruned_by_bound).into_iter().rev() {
                put(&mut buckets, p);
            }
        }
        let empty = buckets.iter().all(|b| b.is_empty());
        let go_on = visit(&ch, o);
        if !go_on {
            if !empty {
                st.capped = true;
            }
            break;
        }
        if st.horizon_hits >= 8 && !empty {
            // the scenario does not come to rest: more schedules of it add nothing (and cost the most)
            st.capped = true;
            break;
        }
        if st.executions >= cap && !empty {
            st.capped = true;
            break;
        }
        if st.executions >= spill_after && !empty {
            st.remaining = buckets.into_iter().flatten().collect();
            break;
        }
    }
    st
}

/// the prefixes that extend the execution `ch` (which replayed `plen` decisions) by one deviation
pub fn children(ch: &Chooser, plen: usize, bound: Option<usize>, pruned: &mut u64) -> Vec<Vec<u32>> {
    let used: usize = ch
        .taken
        .iter()
        .zip(ch.costs.iter())
        .take(plen)
        .filter(|(t, c)| **t != 0 && **c > 0)
        .count();
    let mut v = vec![];
    for i in plen..ch.taken.len() {
        let cost = ch.costs[i] as usize;
        if let Some(b) = bound {
            if cost > 0 && used + cost > b {
                *pruned += (ch.widths[i] - 1) as u64;
                continue;
            }
        }
        for alt in 1..ch.widths[i] {
            let mut p = ch.taken[..i].to_vec();
            p.push(alt);
            v.push(p);
        }
    }
    v
}

/// Split the search tree into work items: expands prefixes breadth-first until at least `target`
/// unexpanded subtrees exist. Returns (expanded prefixes = single executions, subtree roots).
pub fn split_frontier(bound: Option<usize>, target: usize, mut run: impl FnMut(&mut Chooser)) -> (Vec<Vec<u32>>, Vec<Vec<u32>>) {
    let mut queue: std::collections::VecDeque<Vec<u32>> = std::collections::VecDeque::new();
    queue.push_back(vec![]);
    let mut singles = vec![];
    let mut expansions = 0;
    while queue.len() < target && expansions < target {
        let p = match queue.pop_front() {
            Some(p) => p,
            None => break,
        };
        let mut ch = Chooser::new(&p);
        run(&mut ch);
        expansions += 1;
        let mut pruned = 0;
        for c in children(&ch, p.len(), bound, &mut pruned) {
            queue.push_back(c);
        }
        singles.push(p);
    }
    (singles, queue.into_iter().collect())
}

/// 64-bit FNV-1a, stable across runs and processes
pub fn fnv(s: &str) -> u64 {
    let mut h: u64 = 0xcbf29ce484222325;
    for b in s.as_bytes() {
        h ^= *b as u64;
        h = h.wrapping_mul(0x100000001b3);
    }
    h
}

#[derive(Default)]
pub struct StateSet {
    pub set: HashSet<u64>,
}
impl StateSet {
    pub fn add(&mut self, s: &str) -> bool {
        self.set.insert(fnv(s))
    }
    pub fn len(&self) -> usize {
        self.set.len()
    }
}
