#!/bin/bash
# usage: tools_seed_eval_batch.sh <list file>      each line: <patch.diff> <check id>...
# Like tools_seed_eval.sh for several patches in a row: apply to /repo, run the quick checks, undo; the
# harness is rebuilt from the restored tree once, at the end. Results: /tmp/seedeval-<k>-<check>.out
L="$1"
cd /repo && git status --short | grep -v '^??' | grep . && { echo "repo not clean"; exit 2; }
trap "git -C /repo checkout -- ." EXIT
k=0
while read -r P CHECKS; do
  [ -z "$P" ] && continue
  k=$((k+1))
  echo "#### $k $P"
  git -C /repo apply "$P" || { echo "patch does not apply"; continue; }
  for c in $CHECKS; do
    cd /verif && timeout ${EVAL_TIMEOUT:-600} bin/check $c ${TIER:-quick} > /tmp/seedeval-$k-$c.out 2>&1 < /dev/null
    echo "== $c exit $? :: $(grep -c '^VIOLATION' /tmp/seedeval-$k-$c.out) violation lines"
    grep -E "^VIOLATION|signature=|MACHINERY" /tmp/seedeval-$k-$c.out | cut -c1-240 | head -4
  done
  git -C /repo checkout -- .
done < "$L"
git -C /repo status --short | grep -v '^??' | head -3
cd /verif && bin/check build >/dev/null 2>&1
echo "harness rebuilt from the restored tree"
