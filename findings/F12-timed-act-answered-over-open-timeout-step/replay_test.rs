//! Finding 12 (C03), replayed without the explorer: an interrupt act with a timeout rule whose steps
//! hold an interrupt of their own. The rule fires (after 1 s), the timeout's interrupt `kt` opens beneath
//! the timed act; the client then answers the timed act `k2`. The process delivers `complete` while the
//! timeout step and its interrupt are still open. Drop into acts/src/ and wire with
//! `#[cfg(test)] mod replay_test;` in lib.rs; it FAILS on the unchanged engine (that is the finding).
use crate::{
    Act, Engine, Vars, Workflow,
    event::{Action, EventAction, MessageState},
    utils,
};
use std::sync::{Arc, Mutex};

#[tokio::test]
async fn finding12_timed_act_answered_over_open_timeout_step() {
    let workflow = Workflow::new()
        .with_id(&utils::longid())
        .with_step(|step| {
            step.with_id("s2").with_act(
                Act::irq(|a| a.with_key("k2")).with_id("act2").with_timeout(|t| {
                    t.with_on("1s")
                        .with_step(|s| s.with_id("ts1").with_act(Act::irq(|a| a.with_key("kt")).with_id("act_t")))
                }),
            )
        })
        .with_step(|step| step.with_id("s3"));

    let engine = Engine::new().start();
    let rt = engine.runtime();
    let proc = rt.create_proc(&utils::longid(), &workflow);
    let emitter = engine.channel().clone();
    let sig = engine.signal(());
    let (s1, s2) = (sig.clone(), sig.clone());
    let terminal = Arc::new(Mutex::new(Vec::<String>::new()));
    let (t1, t2) = (terminal.clone(), terminal.clone());
    emitter.on_complete(move |p| {
        t1.lock().unwrap().push(format!("complete:{}", p.inner().state));
        s1.close();
    });
    emitter.on_error(move |p| {
        t2.lock().unwrap().push(format!("error:{}", p.inner().state));
        s2.close();
    });

    let s = rt.clone();
    let k2_tid = Arc::new(Mutex::new(None::<String>));
    emitter.on_message(move |e| {
        if !e.is_state(MessageState::Created) {
            return;
        }
        if e.is_key("k2") {
            // leave the timed act open until its rule has fired
            *k2_tid.lock().unwrap() = Some(e.tid.clone());
        } else if e.is_key("kt") {
            // the rule fired, its interrupt is open: now the client answers the timed act
            let tid = k2_tid.lock().unwrap().clone().unwrap();
            s.do_action(&Action::new(&e.pid, &tid, EventAction::Next, &Vars::new())).unwrap();
        }
    });

    rt.launch(&proc);
    sig.recv().await;
    tokio::time::sleep(std::time::Duration::from_millis(200)).await;

    proc.print();
    assert_eq!(*terminal.lock().unwrap(), vec!["complete:completed".to_string()]);
    let open: Vec<String> = proc
        .tasks()
        .iter()
        .filter(|t| !t.state().is_completed())
        .map(|t| format!("{}({})={}", t.node().id(), t.id, t.state()))
        .collect();
    assert!(open.is_empty(), "process reported completed but tasks are still open: {:?}", open);
}
