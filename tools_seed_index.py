#!/usr/bin/env python3
"""writes /verif/seeded/INDEX.md from the meta.json files"""
import json, glob
rows = [json.load(open(d + 'meta.json')) for d in sorted(glob.glob('/verif/seeded/S*/'))]
out = ["# Seeded changes (written by independent sub-agents, confirmed, then run against the checks)", "",
       "Each directory holds patch.diff (relative to /repo at the time it was written), demo.rs, the author's notes,",
       "CONFIRM.txt (suite passes with the change, demo fails with it, demo passes without it) and meta.json.",
       "To run the checks against one: `tools_seed_eval.sh seeded/<id>/patch.diff <check ids>`.", "",
       "| id | aimed at | what the change needs in order to show | detected by (quick tier) | note |", "|---|---|---|---|---|"]
for m in rows:
    out.append(f"| {m['id']} | {m['property']} | {m['needs_to_manifest']} | {', '.join(m['evaluated']['detected_by']) or 'NOT DETECTED'} | {m.get('note') or ''} |")
n = len(rows); det = sum(1 for m in rows if m['evaluated']['detected_by'])
out += ["", f"{det} of {n} detected."]
open('/verif/seeded/INDEX.md', 'w').write("\n".join(out) + "\n")
print(det, "of", n)
